"""Application assembly: the same scripted sessions through

  (A) the real ASGI application built by ``web.create_app(<yaml>)`` - Config.load, storage.get_storage,
      get_rate_limiter, SetupMiddleware, NostrAPI.on_websocket, ViewEventResource - driven by falcon's
      ASGI conductor, and
  (D) the *direct* stack the other suites use and tie to the Coq models: a storage constructed by the
      harness, ``web.start_client`` called with in-memory callables, ``storage.get_event`` for /e/<id>,
      one ``RateLimiter(options)`` shared by all connections and consulted for ACCEPT before the handler.

Observations (canonical frames per connection after every operation, close codes, HTTP status / body of
GET /e/<id>) must be equal.  The glue (D) stands for is what the documentation states: storage class and
options from ``storage:`` in the configuration, limiter from ``rate_limits:``, origin black list closes with
1008, a refused ACCEPT closes with 1013, ``message_timeout`` from the configuration.

Since (D) ≡ model is what the property checks establish, (A) ≡ (D) extends their verdicts to the
assembled application.  Limiter decisions seen by (A) are additionally judged by the C18 model.
"""
import asyncio
import json
import logging
import os

import yaml

from . import env
from .common import Suite, model_batch, rng_for

LOG = logging.getLogger("verif.app")
STEP_TIMEOUT = 12.0


# ----------------------------------------------------------------------------- configuration

def write_config(scratch, backend, over):
    conf = yaml.safe_load(open(env.TEST_CONFIG))
    for k in ("rate_limits", "origin_blacklist"):
        conf.pop(k, None)
    conf["logging"] = None
    conf["garbage_collector"] = None
    conf["authentication"] = {"enabled": False}
    validators = over.pop("validators", ["nostr_relay.validators.is_signed"])
    if backend == "sql":
        conf["storage"] = {"sqlalchemy.url": "sqlite+aiosqlite:///" + scratch.path(".sqlite3"), "validators": list(validators)}
    else:
        import lmdb
        env._KV_SEQ[0] += 1
        path = "shim-app-%d-%d" % (os.getpid(), env._KV_SEQ[0])
        lmdb.wipe(path)
        conf["storage"] = {"class": "nostr_relay.storage.kv.LMDBStorage", "path": path, "validators": list(validators)}
    conf.update(over)
    p = scratch.path(".yaml")
    with open(p, "w") as fp:
        yaml.safe_dump(conf, fp)
    return p


def load(path):
    from nostr_relay.config import Config
    # attributes set by an earlier configuration must not survive into this one
    fresh = type(Config)()
    Config.__dict__.clear()
    Config.__dict__.update(fresh.__dict__)
    Config.load(path, reload=True)
    Config.analysis_delay = 0.0
    return Config


def instrument(st, backend):
    """what env.sql_storage / env.kv_storage add to a storage they build (needed by env.quiesce / dump)"""
    st._backend = backend
    if backend != "kv":
        return
    import lmdb
    st._submitted = 0
    st._base_done = lmdb.WRITE_TXNS_DONE[0]
    real = st.writer_queue

    class CountingQueue:
        def put(self, item, *a, **k):
            if item is not None:
                st._submitted += 1
            return real.put(item, *a, **k)

        def qsize(self):
            return real.qsize()

        def empty(self):
            return real.empty()
    st.writer_queue = CountingQueue()


class LimiterTap:
    """class-level tap on RateLimiter: injected clock, every decision recorded (restored by close())"""

    def __init__(self, clock):
        from nostr_relay import rate_limiter as rl
        self.rl = rl
        self.calls = []
        self.cleanups = 0
        self._ts = rl.RateLimiter._timestamp
        self._is = rl.RateLimiter.is_limited
        self._cl = rl.RateLimiter.cleanup
        tap = self
        rl.RateLimiter._timestamp = lambda self_: clock[0]

        def is_limited(self_, addr, message):
            v = tap._is(self_, addr, message)
            tap.calls.append([clock[0], addr, message[0] if isinstance(message, list) and message else None, bool(v)])
            return v

        def cleanup(self_):
            tap.calls.append([clock[0]])
            return tap._cl(self_)
        rl.RateLimiter.is_limited = is_limited
        rl.RateLimiter.cleanup = cleanup

    def close(self):
        self.rl.RateLimiter._timestamp = self._ts
        self.rl.RateLimiter.is_limited = self._is
        self.rl.RateLimiter.cleanup = self._cl


# ----------------------------------------------------------------------------- connections

class Conn:
    def __init__(self, cid):
        self.cid = cid
        self.frames = []          # raw texts received by the client
        self.seen = 0
        self.closed = None        # close code once the server closed / refused
        self.idle = asyncio.Event()
        self.done = asyncio.Event()
        self.kwargs = None


class Stack:
    """common part: operations and observation"""

    def __init__(self, backend, conf):
        self.backend = backend
        self.conf = dict(conf)
        self.conns = {}
        self.clock = [0]
        self.scratch = env.Scratch()
        self.handler_errors = []

    # -- to be provided: start(), open_conn(c, addr, origin), send_text(c, text), hangup(c), http_get(event_id), stop()

    async def settle(self):
        await env.quiesce(self.st)
        stable, last = 0, -1
        for _ in range(400):
            await asyncio.sleep(0.002)
            n = sum(len(c.frames) for c in self.conns.values()) + sum(1 for c in self.conns.values() if c.closed is not None)
            if n == last:
                stable += 1
                if stable >= 3:
                    break
            else:
                stable, last = 0, n

    def _new_frames(self):
        out = []
        for cid in sorted(self.conns):
            c = self.conns[cid]
            fr = [canon(x) for x in c.frames[c.seen:]]
            c.seen = len(c.frames)
            if fr:
                out.append([cid, fr])
        return out

    async def _wait(self, c, pred):
        """until pred(new frames of c) or the connection ended; 'TIMEOUT' otherwise"""
        loop = asyncio.get_running_loop()
        t0 = loop.time()
        start = c.seen
        while loop.time() - t0 < STEP_TIMEOUT:
            if any(pred(canon(x)) for x in c.frames[start:]) or c.closed is not None or c.done.is_set():
                return None
            await asyncio.sleep(0.002)
        return "TIMEOUT"

    async def _wait_idle(self, c):
        w = asyncio.ensure_future(c.idle.wait())
        d = asyncio.ensure_future(c.done.wait())
        done, pend = await asyncio.wait({w, d}, timeout=STEP_TIMEOUT, return_when=asyncio.FIRST_COMPLETED)
        for p in pend:
            p.cancel()
        return None if done else "TIMEOUT"

    async def op(self, o):
        k = o[0]
        note = None
        if k == "tick":
            self.clock[0] += o[1]
            env.set_clock(env.NOW + self.clock[0])
        elif k == "open":
            _, cid, addr, origin = o
            c = Conn(cid)
            self.conns[cid] = c
            await self.open_conn(c, addr, origin)
            if c.closed is None:
                note = await self._wait_idle(c)
        elif k == "get":
            note = await self.http_get(o[1])
        elif k == "roles":
            # what `nostr-relay role set <pubkey> <roles>` does
            await self.st.set_auth_roles(env.PUBS[o[1]], o[2])
            await env.quiesce(self.st)
        elif k == "gc":
            # one pass of the storage's own garbage collector at the current (injected) time
            from nostr_relay.util import call_from_path
            try:
                await call_from_path(self.st.DEFAULT_GARBAGE_COLLECTOR, self.st).run_once()
            except Exception as e:      # noqa
                note = "gc-raised:" + type(e).__name__
            await env.quiesce(self.st)
        else:
            c = self.conns.get(o[1])
            if c is None or c.closed is not None or c.done.is_set():
                note = "gone"
            elif k == "drop":
                await self.hangup(c)
                try:
                    await asyncio.wait_for(c.done.wait(), STEP_TIMEOUT)
                except asyncio.TimeoutError:
                    note = "TIMEOUT"
            else:
                if k == "event":
                    text = json.dumps(["EVENT", o[2]])
                    eid = o[2].get("id") if isinstance(o[2], dict) else None
                    pred = lambda f: f[0] in ("OK", "NOTICE")        # noqa: E731
                elif k == "req":
                    text = json.dumps(["REQ", o[2]] + list(o[3]))
                    sid = o[2]
                    pred = lambda f: (f[0] == "EOSE" and f[1] == sid) or f[0] == "NOTICE"    # noqa: E731
                elif k == "close":
                    text = json.dumps(["CLOSE", o[2]])
                    pred = None
                elif k == "auth":
                    text = json.dumps(["AUTH", self.auth_answer(c, *o[2:])])
                    pred = None
                else:                                                  # raw
                    text = o[2]
                    pred = None
                c.idle.clear()
                await self.send_text(c, text)
                note = await self._wait_idle(c)
                if pred is not None and note is None:
                    note = await self._wait(c, pred)
        await self.settle()
        obs = {"frames": self._new_frames()}
        closed = sorted([cid, c.closed] for cid, c in self.conns.items() if c.closed is not None and not getattr(c, "_reported", False))
        for cid, _ in closed:
            self.conns[cid]._reported = True
        if closed:
            obs["closed"] = closed
        if note is not None:
            obs["note"] = note
        return obs

    def auth_answer(self, c, who, relay, dt, kind=22242):
        """NIP-42 answer to the last challenge this connection received"""
        ch = ""
        for x in c.frames:
            f = canon(x, keep_challenge=True)
            if f[0] == "AUTH":
                ch = f[1]
        return env.mk_event(who, kind, env.NOW + self.clock[0] + dt, [["relay", relay], ["challenge", ch]], "")


def canon(raw, keep_challenge=False):
    try:
        v = json.loads(raw)
    except Exception:
        return ["UNPARSABLE", raw[:40]]
    if not isinstance(v, list) or not v:
        return ["ODD", raw[:40]]
    if v[0] == "EVENT" and len(v) == 3 and isinstance(v[2], dict):
        return ["EVENT", v[1], v[2].get("id"), v[2].get("sig", "")[:8]]
    if v[0] == "AUTH" and not keep_challenge:
        return ["AUTH", "<challenge:%d>" % len(str(v[1]))]
    return v


# ----------------------------------------------------------------------------- (D) direct stack

class DirectStack(Stack):
    name = "direct"

    async def start(self):
        from nostr_relay import rate_limiter as rl
        self.tap = LimiterTap(self.clock)
        path = write_config(self.scratch, self.backend, dict(self.conf))
        Config = load(path)
        env.patch_clock()
        env.set_clock(env.NOW)
        self.vs = env.patch_web_sleep()
        self.Config = Config
        opts = dict(Config.storage)
        if self.backend == "sql":
            from nostr_relay.storage import get_metadata
            from nostr_relay.storage.db import DBStorage
            self.st = DBStorage(opts)
            await self.st.setup()
            async with self.st.db.begin() as conn:
                await conn.run_sync(get_metadata().create_all)
        else:
            from nostr_relay.storage import kv
            env.stub_analyze(kv)
            self.st = kv.LMDBStorage(opts)
            await self.st.setup()
        instrument(self.st, self.backend)
        self.limiter = rl.RateLimiter(Config.rate_limits) if Config.rate_limits is not None else rl.NullRateLimiter()
        self.blacklist = Config.origin_blacklist or []
        self.message_timeout = Config.get("message_timeout", 1800)

    async def open_conn(self, c, addr, origin):
        import falcon
        from nostr_relay import web
        org = str(origin).lower()
        # a close before the handshake is accepted reaches the client as a refused handshake (HTTP 403), whatever its code
        if org in self.blacklist:
            c.closed = "refused"
            return
        if self.limiter.is_limited(addr, ["ACCEPT"]):
            c.closed = "refused"
            return
        c.inbox = asyncio.Queue()

        async def ws_send(text):
            c.frames.append(text)

        async def ws_recv():
            c.idle.set()
            item = await c.inbox.get()
            if item is None:
                raise falcon.WebSocketDisconnected()
            return item

        async def ws_close(code=1000):
            c.closed = code

        async def run():
            try:
                await web.start_client(self.st, ws_send, ws_recv, ws_close, LOG, remote_addr=addr, origin=org,
                                       rate_limiter=self.limiter, message_timeout=self.message_timeout)
            except BaseException as e:      # noqa
                self.handler_errors.append(repr(e))
            finally:
                c.done.set()
        c.task = asyncio.create_task(run())

    async def send_text(self, c, text):
        c.inbox.put_nowait(text)

    async def hangup(self, c):
        c.inbox.put_nowait(None)

    async def http_get(self, event_id):
        try:
            ev = await self.st.get_event(event_id)
        except ValueError:
            ev = None
        except Exception:
            ev = None
        self.last_get = [200, json.loads(json.dumps(ev.to_json_object()))] if ev else [404, None]
        return None

    async def stop(self):
        for c in self.conns.values():
            if getattr(c, "task", None) is not None and not c.task.done():
                c.inbox.put_nowait(None)
                try:
                    await asyncio.wait_for(c.task, 10)
                except Exception:
                    pass
        leftover = sum(len(v) for v in self.st.clients.values())
        await env.close(self.st)
        self.tap.close()
        self.scratch.close()
        return leftover


# ----------------------------------------------------------------------------- (A) application stack

class AppStack(Stack):
    name = "app"

    async def start(self):
        import falcon.testing
        from nostr_relay import web
        import nostr_relay.storage as storage_pkg
        self.tap = LimiterTap(self.clock)
        path = write_config(self.scratch, self.backend, dict(self.conf))
        load(path)
        env.patch_clock()
        env.set_clock(env.NOW)
        self.vs = env.patch_web_sleep()
        if self.backend == "kv":
            from nostr_relay.storage import kv
            env.stub_analyze(kv)
        storage_pkg._STORAGE = None
        await self.prepare(path)
        self.web = web
        self._real_start_client = web.start_client
        stack = self

        async def start_client(storage, ws_send, ws_recv, ws_close, log, **kw):
            """transparent wrapper: only signals 'handler waits for the next message' and 'handler returned'"""
            c = stack._opening
            c.kwargs = {k: (v if k != "rate_limiter" else type(v).__name__) for k, v in kw.items()}

            async def recv():
                c.idle.set()
                return await ws_recv()
            try:
                return await stack._real_start_client(storage, ws_send, recv, ws_close, log, **kw)
            except BaseException as e:      # noqa
                stack.handler_errors.append(repr(e))
                raise
            finally:
                c.done.set()
        web.start_client = start_client
        saved_signal = None
        try:
            import signal
            saved_signal = signal.getsignal(signal.SIGUSR1)
        except Exception:
            pass
        self._saved_signal = saved_signal
        self.app = web.create_app(path)
        self.st = storage_pkg.get_storage()
        self.conductor = falcon.testing.ASGIConductor(self.app)
        await self.conductor.__aenter__()            # lifespan startup: SetupMiddleware -> storage.setup()
        if self.backend == "sql":
            from nostr_relay.storage import get_metadata
            async with self.st.db.begin() as conn:
                await conn.run_sync(get_metadata().create_all)
        instrument(self.st, self.backend)

    async def prepare(self, path):
        """hook: after the configuration was written and loaded, before the application is built"""

    async def open_conn(self, c, addr, origin):
        import falcon
        self._opening = c
        headers = {"Origin": origin} if origin is not None else None
        ctx = self.conductor.simulate_ws("/", remote_addr=addr, headers=headers)
        c.ctx = ctx
        try:
            c.ws = await ctx.__aenter__()
        except falcon.WebSocketDisconnected:
            c.closed = "refused"
            c.raw_close_code = ctx._ws.close_code
            c.done.set()
            return

        async def reader():
            try:
                while True:
                    c.frames.append(await c.ws.receive_text())
            except falcon.WebSocketDisconnected:
                if c.ws.close_code is not None and not getattr(c, "client_hung_up", False):
                    c.closed = c.ws.close_code
            except Exception as e:      # noqa
                c.frames.append(json.dumps(["READER-ERROR", repr(e)]))
        c.reader = asyncio.create_task(reader())

    async def send_text(self, c, text):
        await c.ws.send_text(text)

    async def hangup(self, c):
        c.client_hung_up = True
        try:
            await c.ctx.__aexit__(None, None, None)
        except Exception as e:      # noqa
            self.handler_errors.append("aexit:" + repr(e))

    async def http_get(self, event_id):
        r = await self.conductor.simulate_get("/e/" + event_id)
        code = int(str(r.status).split()[0])
        body = None
        if code == 200:
            try:
                body = json.loads(r.text)
            except Exception:
                body = ["UNPARSABLE", r.text[:60]]
        self.last_get = [code, body]
        return None

    async def stop(self):
        for c in self.conns.values():
            if getattr(c, "ws", None) is not None and not c.done.is_set():
                await self.hangup(c)
                try:
                    await asyncio.wait_for(c.done.wait(), 10)
                except Exception:
                    pass
            r = getattr(c, "reader", None)
            if r is not None:
                r.cancel()
        leftover = sum(len(v) for v in self.st.clients.values())
        try:
            await self.conductor.__aexit__(None, None, None)     # lifespan shutdown: optimize(), close()
        except Exception as e:      # noqa
            self.handler_errors.append("shutdown:" + repr(e))
        self.web.start_client = self._real_start_client
        try:
            import signal
            if self._saved_signal is not None:
                signal.signal(signal.SIGUSR1, self._saved_signal)
        except Exception:
            pass
        import nostr_relay.storage as storage_pkg
        storage_pkg._STORAGE = None
        self.tap.close()
        self.scratch.close()
        return leftover


# ----------------------------------------------------------------------------- running a scenario on a stack

async def run_stack(cls, backend, conf, ops):
    st = cls(backend, conf)
    obs = []
    await st.start()
    try:
        for o in ops:
            r = await st.op(o)
            if o[0] == "get":
                r["get"] = st.last_get
            obs.append(r)
    finally:
        leftover = await st.stop()
    return {"obs": obs, "limiter": st.tap.calls, "errors": st.handler_errors, "leftover": leftover,
            "kwargs": [c.kwargs for _, c in sorted(st.conns.items())] if cls is AppStack else None}


def run_both(backend, conf, ops):
    a = env.run(run_stack(AppStack, backend, conf, ops))
    d = env.run(run_stack(DirectStack, backend, conf, ops))
    return a, d


def first_difference(a, d):
    for i, (x, y) in enumerate(zip(a["obs"], d["obs"])):
        if x != y:
            return i, x, y
    if a["limiter"] != d["limiter"]:
        n = next((k for k in range(min(len(a["limiter"]), len(d["limiter"]))) if a["limiter"][k] != d["limiter"][k]),
                 min(len(a["limiter"]), len(d["limiter"])))
        return -1, a["limiter"][n:n + 2], d["limiter"][n:n + 2]
    if a["leftover"] != d["leftover"]:
        return -2, a["leftover"], d["leftover"]
    if a["errors"] != d["errors"]:
        return -3, a["errors"], d["errors"]
    return None


# ----------------------------------------------------------------------------- generators

ADDRS = ["1.1.1.1", "2.2.2.2", "::1"]


def gen_events(rng, n):
    evs = []
    for i in range(n):
        who = rng.randrange(3)
        r = rng.random()
        t = env.NOW - rng.choice([0, 1, 5, 50, 500])
        if r < 0.45:
            tags = []
            if rng.random() < 0.5:
                tags.append(["t", rng.choice(["a", "b", ""])])
            if rng.random() < 0.3 and evs:
                tags.append(["e", rng.choice(evs)["id"]])
            if rng.random() < 0.15:
                tags.append(["expiration", str(env.NOW + rng.choice([-10, 10, 100000]))])
            evs.append(env.mk_event(who, rng.choice([1, 1, 4, 7]), t, tags, "c%d" % i))
        elif r < 0.6:
            evs.append(env.mk_event(who, rng.choice([0, 3, 10002]), t, [], "r%d" % i))
        elif r < 0.72:
            evs.append(env.mk_event(who, 30000 + rng.randrange(2), t, [["d", rng.choice(["", "x", "y"])]], "p%d" % i))
        elif r < 0.8:
            evs.append(env.mk_event(who, 20001, t, [], "eph%d" % i))
        elif r < 0.92 and evs:
            refs = rng.sample(evs, min(len(evs), rng.randint(1, 3)))
            evs.append(env.mk_event(who, 5, env.NOW, [["e", x["id"]] for x in refs], "del"))
        else:
            e = env.mk_event(who, 1, t, [], "forged%d" % i)
            m = rng.choice(["sig", "id", "content", "old"])
            if m == "sig":
                e["sig"] = "00" * 64
            elif m == "id":
                e["id"] = "ab" * 32
            elif m == "content":
                e["content"] += "!"
            else:
                e = env.mk_event(who, 1, env.NOW - 10 ** 9, [], "ancient")
            if m != "old":
                e["_forged"] = True
            evs.append(e)
    return evs


def gen_filter(rng, evs):
    f = {}
    r = rng.random()
    if r < 0.3 and evs:
        f["ids"] = [x["id"] for x in rng.sample(evs, min(len(evs), rng.randint(1, 3)))]
    elif r < 0.55:
        f["authors"] = rng.sample(env.PUBS[:3], rng.randint(1, 2))
    elif r < 0.8:
        f["kinds"] = rng.sample([0, 1, 3, 4, 5, 7, 30000, 30001, 20001, 10002], rng.randint(1, 4))
    else:
        f["#t"] = [rng.choice(["a", "b", ""])]
    if rng.random() < 0.25:
        f["since"] = env.NOW - rng.choice([0, 5, 50])
    if rng.random() < 0.2:
        f["until"] = env.NOW - rng.choice([0, 1, 50])
    if rng.random() < 0.3:
        f["limit"] = rng.choice([0, 1, 2, 5])
    return f


def gen_store_scenario(rng, backend):
    conf = {}
    if rng.random() < 0.5:
        conf["validators"] = ["nostr_relay.validators.is_not_too_large", "nostr_relay.validators.is_signed", "nostr_relay.validators.is_recent"]
        conf["oldest_event"] = 100000
    if rng.random() < 0.3:
        conf["subscription_limit"] = 2
    if rng.random() < 0.3:
        conf["origin_blacklist"] = ["http://bad.actor"]
    evs = gen_events(rng, rng.randint(6, 14))
    forged_ids = [e["id"] for e in evs if e.pop("_forged", False)]
    ops = [["open", 0, "1.1.1.1", None], ["open", 1, "2.2.2.2", rng.choice([None, "http://good.actor", "HTTP://BAD.ACTOR", "http://bad.actor"])]]
    ops.append(["req", 1, "live", [gen_filter(rng, evs) for _ in range(rng.randint(1, 2))]])
    sent = []
    for e in evs:
        ops.append(["event", 0, e])
        sent.append(e)
        x = rng.random()
        if x < 0.3:
            ops.append(["req", rng.choice([0, 1]), "q%d" % rng.randrange(3), [gen_filter(rng, sent) for _ in range(rng.randint(1, 2))]])
        elif x < 0.45:
            ops.append(["get", rng.choice(sent)["id"]])
        elif x < 0.5:
            ops.append(["close", 1, rng.choice(["live", "q0", "nope"])])
        elif x < 0.55:
            ops.append(["raw", rng.choice([0, 1]), rng.choice(["{", "[]", "[\"REQ\"]", "[\"EVENT\", 5]", "[\"CLOSE\", [1]]", "42", "[\"PING\", 1, 2]"])])
        elif x < 0.6:
            ops.append(["event", 1, e])        # duplicate from the other connection
    for e in sent:
        ops.append(["get", e["id"]])
    ops.append(["get", "zz"])
    ops.append(["get", "ab" * 32])
    ops.append(["req", 0, "all", [{"kinds": [0, 1, 3, 4, 5, 7, 30000, 30001, 20001, 10002]}]])
    ops.append(["drop", 0])
    ops.append(["drop", 1])
    return {"backend": backend, "conf": conf, "ops": ops, "forged_ids": forged_ids}


def gen_gc_scenario(rng, backend):
    ops = [["open", 0, "1.1.1.1", None], ["open", 1, "2.2.2.2", None], ["req", 1, "live", [{"kinds": [1, 20001]}]]]
    evs = []
    for i in range(rng.randint(4, 8)):
        r = rng.random()
        if r < 0.45:
            evs.append(env.mk_event(i % 3, 1, env.NOW - 5, [["expiration", str(env.NOW + rng.choice([10, 50, 150, 100000]))]], "exp%d" % i))
        elif r < 0.6:
            evs.append(env.mk_event(i % 3, 20001, env.NOW - 5, [], "eph%d" % i))
        elif r < 0.75:
            evs.append(env.mk_event(i % 3, 1, env.NOW - 5, [["expiration", rng.choice(["abc", "", "1e9"])]], "malformed%d" % i))
        else:
            evs.append(env.mk_event(i % 3, 1, env.NOW - 5, [], "plain%d" % i))
    for e in evs:
        ops.append(["event", 0, e])
        if rng.random() < 0.7:
            ops.append(["get", e["id"]])
    ops.append(["req", 0, "before", [{"kinds": [1, 20001]}]])
    for step in (rng.choice([20, 60]), rng.choice([100, 200])):
        ops.append(["tick", step])
        ops.append(["gc"])
        for e in evs:
            ops.append(["get", e["id"]])
        ops.append(["req", 0, "after%d" % step, [{"kinds": [1, 20001]}]])
    ops += [["drop", 0], ["drop", 1]]
    return {"backend": backend, "conf": {}, "ops": ops}


def gen_rule(rng):
    return "%d/%s" % (rng.choice([-1, 0, 1, 2, 2, 3, 5]), rng.choice(["s", "min", "h"]))


SCOPE_SHAPES = [["1.1.1.1"], ["global"], ["ip"], ["::1", "1.1.1.1"], ["global", "ip"], ["ip", "::1"]]      # every shape of a rule table is seen by the first six scenarios


def gen_limiter_scenario(rng, backend, index=None):
    rules = {}
    scopes = rng.sample(["global", "ip", "1.1.1.1", "::1"], rng.randint(1, 3))
    if index is not None and index < len(SCOPE_SHAPES):
        scopes = SCOPE_SHAPES[index]
    for si_, sc in enumerate(scopes):
        rules[sc] = {}
        cmds = rng.sample(["ACCEPT", "EVENT", "REQ", "CLOSE"], rng.randint(1, 3))
        if index is not None and index < len(SCOPE_SHAPES) and si_ == 0 and "ACCEPT" not in cmds:
            cmds[0] = "ACCEPT"          # every shape of a rule table is also seen with a rule for new connections
        for cmd in cmds:
            rules[sc][cmd] = ",".join(gen_rule(rng) for _ in range(rng.randint(1, 2)))
    conf = {"rate_limits": rules}
    ops = []
    live = []
    nxt = 0
    k = 0
    for _ in range(rng.randint(12, 30)):
        if rng.random() < 0.5:
            ops.append(["tick", rng.choice([0, 1, 1, 5, 30, 60, 61, 3600])])
        x = rng.random()
        if x < 0.3 or not live:
            ops.append(["open", nxt, rng.choice(ADDRS), None])
            live.append(nxt)
            nxt += 1
        elif x < 0.55:
            k += 1
            ops.append(["event", rng.choice(live), env.mk_event(0, 1, env.NOW - 5, [], "l%d" % k)])
        elif x < 0.75:
            ops.append(["req", rng.choice(live), "s%d" % rng.randrange(2), [{"kinds": [1], "limit": 2}]])
        elif x < 0.85:
            ops.append(["close", rng.choice(live), "s0"])
        elif x < 0.92:
            # message types in another letter case are not commands: neither served nor counted
            k += 1
            ops.append(["raw", rng.choice(live), rng.choice(['["req","lc",{"kinds":[1],"limit":1}]', '["Close","s0"]',
                                                             json.dumps(["event", env.mk_event(1, 1, env.NOW - 5, [], "lc%d" % k)]), '["Req","lc2",{"kinds":[1]}]'])])
        else:
            c = rng.choice(live)
            ops.append(["drop", c])
            live.remove(c)
    for c in live:
        ops.append(["drop", c])
    return {"backend": backend, "conf": conf, "ops": ops}


def gen_auth_scenario(rng, backend):
    url = "ws://relay.example/"
    roles = lambda: rng.choice(["a", "u", "au", "w"])      # noqa: E731
    conf = {"authentication": {"enabled": True, "relay_urls": [url], "actions": {"save": roles(), "query": roles()},
                               "valid_roles": ["a", "u", "w"], "default_roles": rng.choice([["u"], []]) and ["u"] or ["u"]}}
    ops = [["open", 0, "1.1.1.1", None], ["open", 1, "2.2.2.2", None]]
    evs = [env.mk_event(rng.randrange(3), 1, env.NOW - 5, [], "a%d" % i) for i in range(6)]
    r0 = rng.random()
    if r0 < 0.33:
        # a connection that is served while anonymous, authenticates, and goes on asking
        conf["authentication"]["actions"] = {"save": "aw", "query": "ar"}
        k1, k2 = [env.mk_event(rng.randrange(3), 1, env.NOW - 9 + j, [], "open%d %d" % (j, rng.randrange(10 ** 6))) for j in range(2)]
        ops += [["roles", 0, "rw"], ["req", 0, "p0", [{"kinds": [1]}]], ["event", 1, k1], ["auth", 0, 0, url, 0, 22242], ["req", 0, "p1", [{"kinds": [1], "limit": 1}]],
                ["event", 1, k2], ["req", 0, "p0", [{"kinds": [1]}]], ["close", 0, "p1"], ["req", 0, "p2", [{"kinds": [1], "limit": 2}]]]
    elif r0 < 0.75:
        # the life of one connection: refused while anonymous, authenticated, served; the other connection publishes meanwhile
        conf["authentication"]["actions"] = {"save": "aw", "query": "r"}
        k1, k2, k3 = [env.mk_event(rng.randrange(3), 1, env.NOW - 9 + j, [], "core%d %d" % (j, rng.randrange(10 ** 6))) for j in range(3)]
        ops += [["roles", 0, "rw"], ["req", 0, "r0", [{"kinds": [1]}]], ["event", 1, k1], ["auth", 0, 0, url, 0, 22242], ["req", 0, "r1", [{"kinds": [1]}]],
                ["event", 1, k2], ["req", 0, "r0", [{"kinds": [1]}]], ["event", 1, k3], ["auth", 0, 0, "ws://other.example/", 0, 22242],
                ["req", 0, "r2", [{"kinds": [1], "limit": 1}]], ["close", 0, "r1"], ["event", 1, env.mk_event(1, 1, env.NOW - 2, [], "after close %d" % rng.randrange(10 ** 6))]]
    for i, e in enumerate(evs):
        c = rng.choice([0, 1])
        x = rng.random()
        if x < 0.35:
            ops.append(["auth", c, rng.randrange(3), rng.choice([url, url, "ws://other.example/"]), rng.choice([0, 0, -700, 700]),
                        rng.choice([22242, 22242, 1])])
        elif x < 0.5:
            ops.append(["raw", c, rng.choice(['["AUTH", 5]', '["AUTH"]', '["AUTH", {}]', '["AUTH", null]', '["AUTH", {"kind": 22242}]'])])
        ops.append(["event", c, e])
        if rng.random() < 0.5:
            ops.append(["req", rng.choice([0, 1]), "q", [{"kinds": [1]}]])
        if rng.random() < 0.3:
            ops.append(["get", e["id"]])
    ops += [["drop", 0], ["drop", 1]]
    return {"backend": backend, "conf": conf, "ops": ops}


# ----------------------------------------------------------------------------- suites

def judge(suite, sc):
    a, d = run_both(sc["backend"], sc["conf"], sc["ops"])
    kinds = [o[0] for o in sc["ops"]]
    for k in set(kinds):
        suite.count("op_" + k, kinds.count(k))
    suite.count("backend_" + sc["backend"])
    frames = [f for o in d["obs"] for _, fr in o["frames"] for f in fr]
    for f in frames:
        suite.count("frame_" + str(f[0]))
    for o in d["obs"]:
        for _, code in o.get("closed", []):
            suite.count("closed_%s" % code)
        if "get" in o:
            suite.count("get_%d" % o["get"][0])
        if o.get("note"):
            suite.count("note_" + o["note"])
    diff = first_difference(a, d)
    if diff is not None:
        i, x, y = diff
        where = {-1: "limiter decisions", -2: "registrations left after every connection ended", -3: "exceptions leaving the handler"}.get(i, "operation %d" % i)
        case = dict(sc, ops=sc["ops"][: i + 1] if i >= 0 else sc["ops"])
        suite.disagree(case, {"direct": y, "at": where}, {"app": x, "at": where})
    if a["errors"]:
        suite.violate("handler-exception-escaped", sc, "an exception left the connection handler of the assembled application: %s" % a["errors"][0], observed=a["errors"])
    if a["leftover"]:
        suite.violate("registrations-leaked", sc, "%d subscriptions still registered after every connection of the application ended" % a["leftover"])
    for kw in a["kwargs"] or []:
        if kw is None:
            continue
        want_to = sc["conf"].get("message_timeout", 1800)
        if kw.get("message_timeout") != want_to:
            suite.violate("message-timeout-not-from-config", sc, "start_client was given message_timeout=%r, the configuration says %r" % (kw.get("message_timeout"), want_to))
    for cls, i, what in transcript_oracles(sc, a["obs"]):
        suite.violate(cls, dict(sc, ops=sc["ops"][: i + 1]), what + " (assembled application, operation %d)" % i, observed=a["obs"][i])
    return a, d


def transcript_oracles(sc, obs):
    """property-level statements read off the application's own transcript (no reference needed)"""
    out = []
    forged = set(sc.get("forged_ids", []))
    accepted = {}            # id -> event
    removed = {}             # id -> op index of the accepted deletion
    collected = {}           # id -> op index of the collector pass that had to remove it
    open_subs = {}           # connection -> subscription ids the relay accepted and that were not closed since
    clock = 0
    for i, (o, ob) in enumerate(zip(sc["ops"], obs)):
        frames = [(cid, f) for cid, fr in ob["frames"] for f in fr]
        closed_now = {cid for cid, _ in ob.get("closed", [])}
        if o[0] == "tick":
            clock += o[1]
        if o[0] == "gc":
            T = env.NOW + clock
            for x in accepted.values():
                exp = [tg[1] for tg in x.get("tags", []) if len(tg) > 1 and tg[0] == "expiration" and isinstance(tg[1], str) and tg[1].isascii() and tg[1].isdigit()]
                if (20000 <= x.get("kind", 0) < 30000) or any(int(v) < T for v in exp):
                    collected.setdefault(x["id"], i)
        if o[0] == "event" and ob.get("note") != "gone":
            oks = [f for cid, f in frames if cid == o[1] and f[0] == "OK"]
            if len(oks) != 1 and o[1] not in closed_now:
                out.append(("ok-count", i, "an EVENT message was answered with %d OK frames" % len(oks)))
            ev = o[2]
            if oks and oks[0][2] is True and isinstance(ev, dict):
                if ev.get("id") in forged:
                    out.append(("forged-event-admitted", i, "a forged event was acknowledged with OK true"))
                accepted.setdefault(ev["id"], ev)
                removed.pop(ev["id"], None)          # accepted again after its removal: served legitimately from here on
                collected.pop(ev["id"], None)
                if ev.get("kind") == 5:
                    for tg in ev.get("tags", []):
                        x = accepted.get(tg[1]) if len(tg) > 1 and tg[0] == "e" else None
                        if x is not None and x["pubkey"] == ev["pubkey"] and x["created_at"] < ev["created_at"] and x["kind"] != 5:
                            removed.setdefault(x["id"], i)
        if o[0] == "req" and ob.get("note") != "gone":
            mine = [f for cid, f in frames if cid == o[1]]
            if any(f[0] == "EOSE" and f[1] == o[2] for f in mine):
                open_subs.setdefault(o[1], set()).add(o[2])
            elif any(f[0] == "NOTICE" and not str(f[1]).startswith("rate-limited") for f in mine):
                # refused (or a failed replacement): not open. A rate-limited REQ is not looked at at all: an earlier subscription
                # with that id stays as it is.
                open_subs.setdefault(o[1], set()).discard(o[2])
        if o[0] == "close" and ob.get("note") != "gone":
            if not any(cid == o[1] and f[0] == "NOTICE" and str(f[1]).startswith("rate-limited") for cid, f in frames):
                open_subs.setdefault(o[1], set()).discard(o[2])          # (a rate-limited CLOSE is not carried out)
        if o[0] not in ("req",):
            for cid, f in frames:
                if f[0] == "EVENT" and f[1] not in open_subs.get(cid, set()):
                    out.append(("event-under-unopened-subscription", i, "connection %d was sent an EVENT under subscription id %r, which the relay "
                                "refused or the client had closed" % (cid, f[1])))
                    break
        if o[0] == "req" and ob.get("note") == "TIMEOUT":
            out.append(("req-met-with-silence", i, "a REQ got neither EOSE nor NOTICE nor a close"))
        served = [f[2] for _, f in frames if f[0] == "EVENT"]
        if "get" in ob and ob["get"][0] == 200 and isinstance(ob["get"][1], dict):
            served.append(ob["get"][1].get("id"))
            if o[1] != ob["get"][1].get("id"):
                out.append(("get-serves-another-event", i, "GET /e/<id> answered with a different event"))
        for x in served:
            if x in forged:
                out.append(("forged-event-served", i, "a forged event was served"))
            if x in removed and removed[x] < i:
                out.append(("removed-event-still-served", i, "an event removed by its author's accepted deletion (operation %d) was served" % removed[x]))
            if x in collected and collected[x] < i:
                out.append(("collected-event-still-served", i, "an expired / ephemeral event was served after the collector pass of operation %d" % collected[x]))
    return out


def suite_app_store(tier, seed, backends=("sql", "kv"), n=None, label="store"):
    s = Suite("app:store")
    s.rule = ("scripted sessions (two connections, a long-lived subscription, 6-14 events of every storage class incl. deletions, forged and ancient "
              "events, REQs, CLOSE, undecodable / ill-shaped texts, GET /e/<id> for every submitted id) through the ASGI application built by "
              "web.create_app from a YAML configuration (storage class + validators + subscription_limit + origin black list) vs the same script on "
              "the directly constructed storage + web.start_client that the other suites tie to the models; non-trivial = some event refused, some "
              "accepted, some /e/<id> 404 and some 200")
    rng = rng_for(seed, "app-" + label)
    n = n or (4 if tier == "quick" else 30)
    for b in backends:
        for _ in range(n):
            sc = gen_store_scenario(rng, b)
            a, d = judge(s, sc)
            gets = [o["get"][0] for o in d["obs"] if "get" in o]
            oks = [f[2] for o in d["obs"] for _, fr in o["frames"] for f in fr if f[0] == "OK"]
            s.case({"backend": b, "conf": sc["conf"], "n_ops": len(sc["ops"])},
                   nontrivial=(200 in gets and 404 in gets and True in oks and False in oks))
    return s


def suite_app_limiter(tier, seed, backends=("sql",), n=None):
    s = Suite("app:limiter")
    s.rule = ("sessions of 12-30 operations (connect from 3 addresses incl. IPv6, EVENT, REQ, CLOSE, disconnect, clock steps around every interval) "
              "against an application configured with random rate_limits (global / ip / address-specific scopes; ACCEPT, EVENT, REQ, CLOSE; "
              "n in {-1,0,1,2,3,5}); frames, close codes (1013 for a refused ACCEPT) and the limiter's own decision log equal to the direct stack; every "
              "connection attempt and every well-formed message consults the limiter exactly once; the decisions satisfy the sliding-window statement "
              "(C18 model); non-trivial = some but not all decisions are refusals")
    rng = rng_for(seed, "app-limiter")
    n = n or (6 if tier == "quick" else 60)
    from .props import c18
    mcases = []
    for b in backends:
        for i_ in range(n):
            sc = gen_limiter_scenario(rng, b, index=i_)
            a, d = judge(s, sc)
            dec = [x for x in a["limiter"] if len(x) == 4]
            ref = sum(1 for x in dec if x[3])
            s.case({"backend": b, "conf": sc["conf"], "n_ops": len(sc["ops"])}, nontrivial=0 < ref < len(dec))
            # every attempt / well-formed message exactly once
            expect = sum(1 for o, ob in zip(sc["ops"], a["obs"]) if o[0] in ("open", "event", "req", "close") and ob.get("note") != "gone")
            served_raw = [i for i, (o, ob) in enumerate(zip(sc["ops"], a["obs"])) if o[0] == "raw" and ob["frames"]]
            if served_raw:
                s.violate("limiter-bypassed", dict(sc, ops=sc["ops"][: served_raw[0] + 1]), "a message whose type is not EVENT / REQ / CLOSE in upper case was answered "
                          "(operation %d): it is served without being counted by any rule" % served_raw[0], observed=a["obs"][served_raw[0]])
            if len(dec) != expect:
                s.violate("limiter-bypassed", sc, "%d limiter decisions for %d connection attempts + well-formed messages" % (len(dec), expect), observed=dec[:20])
            arr = [x[:3] if len(x) == 4 else x for x in a["limiter"]]
            mcases.append((sc, {"cfg": c18.opts_to_cfg(sc["conf"]["rate_limits"]), "arrivals": arr, "obs": [[x[3], 0, 0] for x in dec]}))
    verdicts = model_batch("c18.holds", [m for _, m in mcases], pid="C18")
    for (sc, m), vd in zip(mcases, verdicts):
        if vd not in ("ok", "deque-unbounded"):
            s.violate(vd, sc, "limiter decisions inside the assembled application deviate from the sliding-window statement: " + vd)
    return s


def suite_app_gc(tier, seed, backends=("sql", "kv"), n=None):
    s = Suite("app:gc")
    s.rule = ("expiring (T+10 .. T+150, far future, malformed), ephemeral and plain events are accepted and looked up through GET /e/<id> and REQ while "
              "still stored; the clock advances, the storage's own collector runs one pass, and every event is looked up again (twice: two passes); "
              "the assembled application must answer like the direct stack, and no expired / ephemeral event may be served after the pass that had to "
              "remove it; non-trivial = an event was served before a pass and had to be gone after it")
    rng = rng_for(seed, "app-gc")
    n = n or (3 if tier == "quick" else 20)
    for b in backends:
        for _ in range(n):
            sc = gen_gc_scenario(rng, b)
            a, d = judge(s, sc)
            g = [o["get"][0] for o in d["obs"] if "get" in o]
            s.case({"backend": b, "n_ops": len(sc["ops"])}, nontrivial=200 in g and 404 in g)
    return s


def suite_app_lists(tier, seed):
    s = Suite("app:dynamic-lists-in-every-worker")
    s.rule = ("the database holds the administrator's follow list (kind 3, p-tags = allowed authors) and, sometimes, a report (kind 1984, p-tag = denied "
              "author); the configuration lists dynamic_lists.is_pubkey_allowed among the validators and the allow / deny list queries; the "
              "application is built and started as the FIRST worker and as a LATER worker (web.is_main_process already set, this process's lists "
              "empty); in both, once the start-up has run, an allowed author's event is acknowledged true and an outsider's / a denied author's "
              "event is refused and not served; non-trivial always")
    rng = rng_for(seed, "app-lists")

    class ListsStack(AppStack):
        def __init__(self, conf, base_events, later_worker):
            AppStack.__init__(self, "sql", conf)
            self.base_events = base_events
            self.later_worker = later_worker

        async def prepare(self, path):
            from nostr_relay import web
            from nostr_relay import dynamic_lists as dl
            from nostr_relay.config import Config
            from nostr_relay.storage import get_metadata
            from nostr_relay.storage.db import DBStorage
            dl.ALLOWED_PUBKEYS.clear()
            dl.DENIED_PUBKEYS.clear()
            o = dict(Config.storage, validators=["nostr_relay.validators.is_signed"])
            st = DBStorage(o)
            await st.setup()
            async with st.db.begin() as conn:
                await conn.run_sync(get_metadata().create_all)
            for e in self.base_events:
                await st.add_event(dict(e))
            await st.close()
            if self.later_worker:
                web.is_main_process.set()
            else:
                web.is_main_process.clear()

    async def one(conf, base, later, probes, expect_denied=False):
        from nostr_relay import web
        from nostr_relay import dynamic_lists as dl
        from nostr_relay.util import Periodic
        st = ListsStack(conf, base, later)
        out = []
        await st.start()
        try:
            for _ in range(2000):                     # the builder's first run (run_at_start) is part of the start-up:
                await asyncio.sleep(0.005)            # wait until it has built both lists (the deny list comes second)
                if dl.ALLOWED_PUBKEYS and (not expect_denied or dl.DENIED_PUBKEYS):
                    break
            await asyncio.sleep(0.02)
            await st.op(["open", 0, "1.1.1.1", None])
            for e in probes:
                r = await st.op(["event", 0, e])
                oks = [f for _, fr in r["frames"] for f in fr if f[0] == "OK"]
                g = await st.op(["get", e["id"]])
                out.append({"ok": oks[0][2] if oks else None, "served": st.last_get[0] == 200})
            await st.op(["drop", 0])
        finally:
            await st.stop()
            Periodic.cancel_running()
            web.is_main_process.clear()
            dl.ALLOWED_PUBKEYS.clear()
            dl.DENIED_PUBKEYS.clear()
        return out
    admin = 0
    for later in (False, True):
        for _ in range(1 if tier == "quick" else 4):
            allowed = rng.sample([1, 2, 3], 2)
            denied = rng.choice([None, allowed[0]])
            base = [env.mk_event(admin, 3, env.NOW - 100, [["p", env.PUBS[i]] for i in allowed], "follows")]
            if denied is not None:
                base.append(env.mk_event(admin, 1984, env.NOW - 90, [["p", env.PUBS[denied]]], "report"))
            conf = {"validators": ["nostr_relay.validators.is_signed", "nostr_relay.dynamic_lists.is_pubkey_allowed"],
                    "dynamic_lists": {"check_interval": 7200, "allow_list_queries": [{"kinds": [3], "authors": [env.PUBS[admin]]}],
                                      "deny_list_queries": [{"kinds": [1984], "authors": [env.PUBS[admin]]}]}}
            probes = [env.mk_event(i, 1, env.NOW - 5, [], "probe %d %d" % (i, rng.randrange(10 ** 6))) for i in (1, 2, 3)]
            got = env.run(one(conf, base, later, probes, expect_denied=denied is not None))
            case = {"later_worker": later, "allowed": allowed, "denied": denied}
            s.case(case, nontrivial=True)
            want = [{"ok": (i in allowed and i != denied), "served": (i in allowed and i != denied)} for i in (1, 2, 3)]
            if got != want:
                s.violate("policy-not-applied-in-this-worker", case, "the dynamic allow / deny lists are not applied by a worker started as %s: "
                          "acknowledgements / lookups %r, expected %r" % ("a later worker" if later else "the first worker", got, want), expected=want, observed=got)
    return s


def suite_app_auth(tier, seed, backends=("sql", "kv"), n=None):
    s = Suite("app:auth")
    s.rule = ("authentication enabled through the YAML configuration (relay_urls, actions save / query with random role sets): NIP-42 answers "
              "(right / wrong relay, fresh / stale, wrong kind) to the challenge each stack issued, EVENT, REQ, GET /e/<id>; frames equal to the "
              "direct stack (challenge text canonicalised); non-trivial = some 'restricted' answer and some accepted event")
    rng = rng_for(seed, "app-auth")
    n = n or (3 if tier == "quick" else 25)
    for b in backends:
        for _ in range(n):
            sc = gen_auth_scenario(rng, b)
            a, d = judge(s, sc)
            fr = [f for o in d["obs"] for _, ff in o["frames"] for f in ff]
            restricted = any("restricted" in json.dumps(f) for f in fr)
            accepted = any(f[0] == "OK" and f[2] is True for f in fr)
            s.case({"backend": b, "conf": sc["conf"], "n_ops": len(sc["ops"])}, nontrivial=restricted and accepted)
    return s


# which property checks run which application-level suites (the assembled application is one more path on
# which the property has to hold; the scenarios differ per property through the seed label)
APP_SUITES = {
    "C03": ["store"], "C06": ["store"], "C08": ["store"], "C13": ["store", "limiter"], "C16": ["store", "lists"], "C19": ["store", "auth", "limiter"],
    "C01": ["store"], "C14": ["auth"], "C15": ["auth"], "C18": ["limiter"], "C17": ["gc"], "C05": ["auth"], "C02": ["store"],
}


def suites_for(pid, tier, seed):
    out = []
    for k in APP_SUITES.get(pid, []):
        if k == "store":
            out.append(suite_app_store(tier, seed, label="store-" + pid, n=3 if tier == "quick" else 20))
        elif k == "auth":
            out.append(suite_app_auth(tier, seed))
        elif k == "limiter":
            out.append(suite_app_limiter(tier, seed))
        elif k == "gc":
            out.append(suite_app_gc(tier, seed))
        elif k == "lists":
            out.append(suite_app_lists(tier, seed))
    return out


def replay(payload):
    """./check Cxx --replay <file> for a violation / disagreement of an app:* suite"""
    v = payload.get("violation") or (payload.get("first_disagreements") or [{}])[0]
    sc = v["case"]
    s = Suite("replay")
    judge(s, sc)
    for x in s.violations:
        print("still failing:", x["cls"], x["what"])
    for x in s.disagreements:
        print("application and direct stack differ:", json.dumps(x["model"])[:600], "<>", json.dumps(x["impl"])[:600])
    bad = bool(s.violations or s.disagreements)
    print("replay:", "FAIL" if bad else "pass")
    return 1 if bad else 0
