"""Implementation-side environment: configuration, keys and signing, injected clock,
storage construction on both backends (file-backed SQLite / LMDB on the shim), dumps,
writer quiescence, REQ helper, virtual sleep."""
import asyncio
import hashlib
import json
import os
import shutil
import tempfile

import coincurve

from nostr_relay.config import Config
# NostrQuery's default limit is Config.max_limit AT THE TIME storage/base.py IS FIRST IMPORTED: import it now, with the pristine
# configuration, so that a filter without a limit means the same in every suite whatever ran first in this process
import nostr_relay.storage.base  # noqa: E402,F401

TEST_CONFIG = os.path.join(os.environ.get("VERIF_REPO", "/repo"), "test", "test_config.yaml")

SECRETS = [hashlib.sha256(b"verif-key-%d" % i).hexdigest() for i in range(4)]
PRIVS = [coincurve.PrivateKey(bytes.fromhex(s)) for s in SECRETS]
PUBS = [p.public_key.format()[1:].hex() for p in PRIVS]
NOW = 1700000000


def load_config(**over):
    # start from the pristine defaults: Config.load only sets the keys of the YAML file, so an attribute a previous
    # suite of the same process had set (max_limit, subscription_limit, rate_limits, ...) would otherwise survive
    fresh = type(Config)()
    Config.__dict__.clear()
    Config.__dict__.update(fresh.__dict__)
    Config.load(TEST_CONFIG, reload=True)
    Config.authentication = {"enabled": False}
    Config.garbage_collector = None
    Config.analysis_delay = 0.0
    Config.output_validator = None
    Config.service_privatekey = over.pop("service_privatekey", Config.service_privatekey)
    for k, v in over.items():
        setattr(Config, k, v)
    return Config


def nip01_serialize(pubkey, created_at, kind, tags, content):
    """NIP-01 canonical serialization, written from the NIP text (independent of aionostr)."""
    return json.dumps([0, pubkey, created_at, kind, tags, content], separators=(",", ":"), ensure_ascii=False).encode("utf-8")


def compute_id(pubkey, created_at, kind, tags, content):
    return hashlib.sha256(nip01_serialize(pubkey, created_at, kind, tags, content)).hexdigest()


def mk_event(who=0, kind=1, created_at=NOW, tags=None, content="", sign=True):
    tags = [list(t) for t in (tags or [])]
    pk = PUBS[who]
    eid = compute_id(pk, created_at, kind, tags, content)
    sig = PRIVS[who].sign_schnorr(bytes.fromhex(eid), None).hex() if sign else "00" * 64
    return {"id": eid, "pubkey": pk, "created_at": created_at, "kind": kind, "tags": tags, "content": content, "sig": sig}


_CLOCK = [NOW]


def _now():
    return _CLOCK[0]


def set_clock(t):
    _CLOCK[0] = t


def patch_clock():
    """Replace the module-level `time` names the relay imported with the injected clock."""
    import nostr_relay.validators as v
    import nostr_relay.auth as a
    import nostr_relay.storage.db as db
    v.time = _now
    a.time = _now
    db.time = _now
    try:
        import nostr_relay.storage.kv as kv
        kv.time = _now
    except Exception:
        pass


class Scratch:
    def __init__(self):
        self.dir = tempfile.mkdtemp(prefix="verif-")
        self.n = 0

    def path(self, suffix):
        self.n += 1
        return os.path.join(self.dir, "db%d%s" % (self.n, suffix))

    def close(self):
        shutil.rmtree(self.dir, ignore_errors=True)


async def sql_storage(scratch, validators=None, **opts):
    from nostr_relay.storage import get_metadata
    from nostr_relay.storage.db import DBStorage

    o = {"sqlalchemy.url": "sqlite+aiosqlite:///" + scratch.path(".sqlite3"),
         "validators": list(validators if validators is not None else ["nostr_relay.validators.is_signed"])}
    o.update(opts)
    Config.storage = dict(o)
    st = DBStorage(o)
    await st.setup()
    async with st.db.begin() as conn:
        await conn.run_sync(get_metadata().create_all)
    st._backend = "sql"
    return st


_KV_SEQ = [0]


def stub_analyze(kv):
    """the statistics thread is not part of any property (DESIGN 5/C02): the suites run without it, except
    extra.suite_kv_req_burst, which puts the real function back"""
    if not hasattr(kv, "_verif_real_analyze"):
        kv._verif_real_analyze = kv.analyze
    kv.analyze = lambda *a, **k: None


async def kv_storage(scratch=None, validators=None, path=None, **opts):
    import lmdb
    from nostr_relay.storage import kv

    stub_analyze(kv)       # statistics thread: not part of any property (DESIGN 5/C02)
    if path is None:
        _KV_SEQ[0] += 1
        path = "shim-%d-%d" % (os.getpid(), _KV_SEQ[0])
        lmdb.wipe(path)
    o = {"class": "nostr_relay.storage.kv.LMDBStorage", "path": path,
         "validators": list(validators if validators is not None else ["nostr_relay.validators.is_signed"])}
    o.update(opts)
    Config.storage = dict(o)
    st = kv.LMDBStorage(o)
    await st.setup()
    st._backend = "kv"
    st._submitted = 0
    st._base_done = lmdb.WRITE_TXNS_DONE[0]
    real = st.writer_queue

    class CountingQueue:
        def put(self, item, *a, **k):
            if item is not None:
                st._submitted += 1
            return real.put(item, *a, **k)

        def qsize(self):
            return real.qsize()

        def empty(self):
            return real.empty()
    st.writer_queue = CountingQueue()
    return st


async def quiesce(st):
    """Wait until every queued LMDB writer operation has finished its transaction."""
    if getattr(st, "_backend", "") != "kv":
        return
    import lmdb
    for _ in range(200000):
        if lmdb.WRITE_TXNS_DONE[0] - st._base_done >= st._submitted and not st.writer_thread.processing:
            return
        await asyncio.sleep(0.0005)
    raise RuntimeError("LMDB writer did not quiesce")


async def dump(st):
    """Canonical full-store dump."""
    if st._backend == "kv":
        await quiesce(st)
        return {"kv": [(k, v) for k, v in st.db.dump()]}
    import sqlalchemy as sa
    async with st.db.connect() as conn:
        ev = (await conn.execute(sa.text("SELECT id, created_at, kind, pubkey, tags, sig, content FROM events ORDER BY id"))).fetchall()
        tg = (await conn.execute(sa.text("SELECT id, name, value FROM tags ORDER BY id, name, value"))).fetchall()
    return {"events": [tuple(r) for r in ev], "tags": [tuple(r) for r in tg]}


async def stored_ids(st):
    d = await dump(st)
    if "kv" in d:
        return sorted(k[1:].hex() for k, _ in d["kv"] if k[:1] == b"\x00")
    return sorted(r[0].hex() for r in d["events"])


class FakeClient:
    """hashable/weakref-able stand-in for util.ClientID"""

    def __init__(self, name="c"):
        self.name = name

    def __str__(self):
        return self.name


async def req(st, filters, sub_id="s", auth_token=None, client=None, timeout=20):
    """Run a REQ through BaseStorage.subscribe (the websocket path) and collect
    everything queued for it up to and including EOSE; then CLOSE.
    Returns (events list [Event], outcome) with outcome in {"eose","notice:<text>","error:<cls>"}."""
    from nostr_relay.errors import StorageError, AuthenticationError
    await quiesce(st)
    q = asyncio.Queue()
    client = client or FakeClient()
    try:
        await st.subscribe(client, sub_id, [json.loads(json.dumps(f)) if isinstance(f, dict) else f for f in filters], q, auth_token=auth_token)
    except (StorageError, AuthenticationError) as e:
        return [], "notice:" + str(e)
    except Exception as e:
        return [], "error:" + type(e).__name__
    out = []
    try:
        while True:
            sid, ev = await asyncio.wait_for(q.get(), timeout)
            if ev is None:
                break
            out.append(ev)
    except asyncio.TimeoutError:
        await st.unsubscribe(client, sub_id)
        return out, "silence"
    await st.unsubscribe(client, sub_id)
    return out, "eose"


async def drain_to_eose(q, timeout=20):
    """after BaseStorage.subscribe: consume the stored answer up to and including its EOSE marker, so that what is
    counted afterwards is live delivery only (a stored query that is still running when events are accepted would
    legitimately deliver them a second time)"""
    out = []
    while True:
        sid, ev = await asyncio.wait_for(q.get(), timeout)
        if ev is None:
            return out
        out.append(ev)


def ev_obj(e):
    """Event object -> plain dict"""
    return {"id": e.id, "pubkey": e.pubkey, "created_at": e.created_at, "kind": e.kind,
            "tags": [list(t) for t in e.tags], "content": e.content, "sig": e.sig}


async def close(st):
    try:
        await st.close()
    except Exception:
        pass


def run(coro):
    loop = asyncio.new_event_loop()
    try:
        return loop.run_until_complete(coro)
    finally:
        try:
            pending = asyncio.all_tasks(loop)
            for t in pending:
                t.cancel()
            if pending:
                loop.run_until_complete(asyncio.gather(*pending, return_exceptions=True))
        finally:
            loop.close()


class VirtualSleep:
    """asyncio.sleep replacement for nostr_relay.web: records requested delays, yields once."""

    def __init__(self):
        self.total = 0.0
        self.calls = []

    async def __call__(self, delay, result=None):
        self.total += delay
        self.calls.append(delay)
        await _real_sleep(0)
        return result


_real_sleep = asyncio.sleep


class WebAsyncio:
    """module proxy handed to nostr_relay.web as its `asyncio` so only web's sleeps are virtual"""

    def __init__(self, vs):
        self._vs = vs

    def __getattr__(self, name):
        if name == "sleep":
            return self._vs
        return getattr(asyncio, name)


def patch_web_sleep():
    import nostr_relay.web as web
    vs = VirtualSleep()
    web.asyncio = WebAsyncio(vs)
    return vs
