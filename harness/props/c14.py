"""C14 - role-based authorization: the matrix save-roles x query-roles x token-roles over
{a,r,w,s} (incl. no token) on both backends with stored and live delivery under an output
validator that rejects a marked author; role assignment / read-back sequences; the web-level
wording ('restricted') of refusals.  Model correspondence plus the executable statements
c14.holds / c14.roles_holds on the implementation's observations."""
import asyncio
import itertools
import json
import types

from .. import common, env
from ..common import Suite, model_batch, rng_for

ASSUMPTIONS = [
    "role strings are ASCII (str.lower() is modelled on A-Z only)",
    "the validators of the stores under test admit every generated event (is_signed only): C14 is about what happens after validation",
    "LMDB role storage is judged over the abstract model 'the newest kind-31494 service event per d value wins' with a strictly "
    "increasing clock between assignments (created_at has one-second resolution; NIP-33 replacement itself is C09)",
    "the output validator is a pure function of (event, context)",
]

ALPHABET = "arws"
SUBSETS = ["".join(c for c, b in zip(ALPHABET, bits) if b) for bits in itertools.product([0, 1], repeat=4)]
TOKENS = [None] + SUBSETS            # no token + 16 role sets
MARKED, CLEAN = 3, 1                 # indices into env.PUBS
NOW = env.NOW
OV_PATH = "harness.props.c14.reject_marked"


def reject_marked(event, context):
    """output validator used by the matrix: events of the marked author are never sent"""
    return event.pubkey != env.PUBS[MARKED]


def tok(roles, who=2):
    if roles is None:
        return {}          # what web.start_client passes for an unauthenticated connection
    return {"pubkey": env.PUBS[who], "roles": set(roles), "now": NOW}


_KV_N = [0]


async def make_storage(backend, scratch, auth, ov):
    env.load_config(authentication=auth, output_validator=(OV_PATH if ov else None))
    env.patch_clock()
    if backend == "sql":
        return await env.sql_storage(scratch)
    _KV_N[0] += 1
    path = "c14-%d-%d" % (id(scratch), _KV_N[0])
    st = await env.kv_storage(scratch, path=path)
    st._shim_path = path
    return st


async def close_storage(st):
    await env.close(st)
    if getattr(st, "_shim_path", None):
        import lmdb
        lmdb.wipe(st._shim_path)


def outcome(exc):
    from nostr_relay.errors import AuthenticationError, StorageError
    if exc is None:
        return "done"
    if isinstance(exc, AuthenticationError):
        return "restricted" if str(exc).startswith("restricted") else "autherror:" + str(exc)
    if isinstance(exc, StorageError):
        return "invalid"
    return "exc:" + type(exc).__name__


async def drain(q):
    out = []
    while not q.empty():
        out.append(q.get_nowait())
    return out


async def run_cell(st, n, token_roles, ov):
    """one cell on a shared store: returns the observation dict"""
    from nostr_relay.errors import AuthenticationError, StorageError
    seen = []
    orig = st.notify_all_connected

    async def spy(event):
        seen.append(event.id)
        return await orig(event)
    st.notify_all_connected = spy
    obs = {}
    try:
        # 1. the connection under test submits a valid event
        new = env.mk_event(0, 1, NOW, [["t", "cell%d" % n]], "new-%d" % n)
        exc = None
        try:
            await st.add_event(new, auth_token=tok(token_roles))
        except Exception as e:  # noqa
            exc = e
        obs["add"] = outcome(exc)
        await env.quiesce(st)
        obs["add_trace"] = (await st.get_event(new["id"]) is not None) or (new["id"] in seen)
        # 2. ... and opens a REQ matching the two base events and this cell's live events
        q = asyncio.Queue()
        client = env.FakeClient("c%d" % n)
        exc = None
        try:
            await st.subscribe(client, "s", [{"#t": ["base"]}, {"#t": ["live%d" % n]}], q, auth_token=tok(token_roles))
        except Exception as e:  # noqa
            exc = e
        stored = []
        if exc is None:
            try:
                while True:
                    sid, ev = await asyncio.wait_for(q.get(), 20)
                    if ev is None:
                        break
                    stored.append(ev.pubkey)
                obs["sub"] = "started" if (client in st.clients and "s" in st.clients[client]) else "eose"
            except asyncio.TimeoutError:
                obs["sub"] = "silence"
        else:
            obs["sub"] = outcome(exc) if not isinstance(exc, StorageError) else "storageerror:" + str(exc)
        obs["stored"] = stored
        obs["registered"] = bool(client in st.clients and "s" in st.clients[client])
        # 3. a privileged writer submits two events that match the subscription: live delivery
        writer = tok(ALPHABET, who=0)
        for who in (MARKED, CLEAN):
            try:
                await st.add_event(env.mk_event(who, 1, NOW + 1, [["t", "live%d" % n]], "live-%d" % n), auth_token=writer)
            except (AuthenticationError, StorageError):
                pass
        if st._notify_sub_tasks:
            await asyncio.wait(st._notify_sub_tasks)
        await asyncio.sleep(0)
        obs["live"] = [ev.pubkey for sid, ev in await drain(q) if ev is not None]
        await st.unsubscribe(client, "s")
        await env.quiesce(st)
    finally:
        st.notify_all_connected = orig
    return obs


def model_case(backend, save, query, token_roles, ov):
    return {"backend": backend, "enabled": True, "save": save, "query": query, "token": token_roles, "ov": ov,
            "marked": env.PUBS[MARKED], "stored": [env.PUBS[MARKED], env.PUBS[CLEAN]], "live": [env.PUBS[MARKED], env.PUBS[CLEAN]],
            "writer": ALPHABET}


def run_matrix(suite, backend, groups, ov=True, fresh_store_every=16):
    """groups: list of (save, query, [token roles]).  A store serves several groups: its Authenticator is
    re-configured through its own parse_options for each (save, query) pair."""
    scratch = env.Scratch()
    n = [0]
    try:
        for g0 in range(0, len(groups), fresh_store_every):
            chunk = groups[g0:g0 + fresh_store_every]

            async def go(chunk=chunk):
                save0, query0, _ = chunk[0]
                st = await make_storage(backend, scratch, {"enabled": True, "actions": {"save": save0, "query": query0}}, ov)
                try:
                    # base events are put in place with the role checks switched off
                    st.authenticator.is_enabled = False
                    await st.add_event(env.mk_event(MARKED, 1, NOW - 10, [["t", "base"]], "base-m"))
                    await st.add_event(env.mk_event(CLEAN, 1, NOW - 20, [["t", "base"]], "base-c"))
                    await env.quiesce(st)
                    out = []
                    for save, query, tokens in chunk:
                        a = st.authenticator
                        a.actions, a.valid_urls, a.is_enabled, a.throttle_roles = a.parse_options(
                            {"enabled": True, "actions": {"save": save, "query": query}})
                        row = []
                        for t in tokens:
                            n[0] += 1
                            row.append(await run_cell(st, n[0], t, ov))
                        out.append(row)
                    return out
                finally:
                    await close_storage(st)
            rows = env.run(go())
            for (save, query, tokens), obs in zip(chunk, rows):
                cases = [model_case(backend, save, query, t, ov) for t in tokens]
                mouts = model_batch("c14.cell", cases)
                verdicts = model_batch("c14.holds", [dict(c, obs=o) for c, o in zip(cases, obs)])
                for t, c, o, mo, vd in zip(tokens, cases, obs, mouts, verdicts):
                    cc = {"backend": backend, "save": save, "query": query, "token": t, "ov": ov}
                    suite.case(cc, nontrivial=True)
                    suite.count("add_" + o["add"].split(":")[0])
                    suite.count("sub_" + o["sub"].split(":")[0])
                    suite.count("token_none" if t is None else "token_%d_roles" % len(t))
                    io = {"add": o["add"], "sub": o["sub"], "stored": o["stored"], "live": o["live"]}
                    if io != mo:
                        suite.disagree(cc, mo, io)
                    if vd == "ok" and o["add"] != "done" and o["add_trace"]:
                        vd = "restricted-but-something-happened"
                    if vd != "ok":
                        suite.violate(vd, {"kind": "cell", "case": cc}, "authorization matrix cell: " + vd,
                                      expected="stored/broadcast only with a save role, served only with a query role, every delivered event "
                                               "passed the output validator", observed=o)
    finally:
        scratch.close()


def sample_groups(rng, n_pairs, tokens_per=None):
    pairs = [(s, q) for s in SUBSETS for q in SUBSETS]
    fixed = [("a", "a"), ("w", "r"), ("", ""), ("arws", "arws"), ("s", "s"), ("w", "a"), ("a", "r")]
    chosen = fixed + rng.sample([p for p in pairs if p not in fixed], max(0, n_pairs - len(fixed)))
    out = []
    for s, q in chosen[:n_pairs]:
        toks = TOKENS if tokens_per is None else [None] + rng.sample(SUBSETS, tokens_per - 1)
        out.append((s, q, toks))
    return out


# ----------------------------------------------------------------------------- can_do directly
def run_can_do(suite):
    from nostr_relay.auth import Authenticator

    class S:
        pass
    cases, impls = [], []
    for enabled in (True, False):
        for roles in SUBSETS:
            a = Authenticator(S(), {"enabled": enabled, "actions": {"save": roles, "query": roles[::-1]}})
            for t in TOKENS:
                for action in ("save", "query"):
                    target = types.SimpleNamespace(pubkey=env.PUBS[0])
                    r = env.run(a.can_do(tok(t), action, target))
                    cases.append({"enabled": enabled, "save": roles, "query": roles[::-1], "token": t, "action": action})
                    impls.append(bool(r))
    mouts = model_batch("c14.can_do", cases)
    for c, io, mo in zip(cases, impls, mouts):
        suite.case(c, nontrivial=c["enabled"])
        suite.count("allowed" if io else "denied")
        if io != mo:
            suite.disagree(c, mo, io)
    # defaults: no actions configured -> anonymous may save and query; None token == {} token
    a = Authenticator(S(), {"enabled": True})
    for t in (None, {}, {"roles": set("a")}, {"roles": set("w")}):
        for action in ("save", "query"):
            r = bool(env.run(a.can_do(t, action, None)))
            want = not (t and "w" in t.get("roles", ()))
            suite.case({"defaults": repr(t), "action": action}, nontrivial=True)
            if r != want:
                suite.disagree({"defaults": repr(t), "action": action}, want, r)


# ----------------------------------------------------------------------------- role storage
def roles_one(suite, backend, scratch, ops, enabled):
    async def go():
        st = await make_storage(backend, scratch, {"enabled": enabled}, False)
        import aionostr.event as ae
        saved = ae.time
        ae.time = types.SimpleNamespace(time=env._now)     # created_at of service events follows the injected clock
        try:
            out = []
            for k, op in enumerate(ops):
                env.set_clock(NOW + k)
                if op[0] == "set":
                    await st.set_auth_roles(op[1], op[2])
                    await env.quiesce(st)
                else:
                    out.append("".join(sorted(await st.get_auth_roles(op[1]))))
            return out
        finally:
            ae.time = saved
            await close_storage(st)
    io = env.run(go())
    mc = {"backend": backend, "ops": ops}
    mo = ["".join(sorted(set(x))) for x in model_batch("c14.roles", [mc])[0]]
    cc = dict(mc, enabled=enabled)
    nsets = sum(1 for o in ops if o[0] == "set")
    suite.case(cc, nontrivial=nsets >= 2)
    suite.count("sets_%d" % min(nsets, 6))
    if io != mo:
        suite.disagree(cc, mo, io)
    vd = model_batch("c14.roles_holds", [dict(mc, obs=io)])[0]
    if vd != "ok":
        suite.violate(vd, {"kind": "roles", "case": cc}, "role assignment does not read back as last set", observed=io)


def run_roles(suite, backend, rng, n_seqs, enabled):
    scratch = env.Scratch()
    pks = [env.PUBS[0], env.PUBS[1], env.PUBS[1].upper(), "short", env.PUBS[2]]
    role_strings = ["", "a", "r", "w", "s", "rw", "wr", "RW", "aA", "rws", "arws", "wwww", "Ws"]
    try:
        for i in range(n_seqs):
            ops = []
            for _ in range(rng.randint(1, 9)):
                if rng.random() < 0.55:
                    ops.append(["set", rng.choice(pks), rng.choice(role_strings)])
                else:
                    ops.append(["get", rng.choice(pks)])
            ops.append(["get", rng.choice(pks)])
            roles_one(suite, backend, scratch, ops, enabled)
    finally:
        scratch.close()


# ----------------------------------------------------------------------------- wording at the websocket
def run_web(suite, backend, combos):
    """EVENT / REQ through web.start_client for connections authenticated with given roles:
    a refused EVENT is answered OK false 'restricted: ...', a refused REQ with NOTICE 'restricted: ...'"""
    from . import c15
    scratch = env.Scratch()
    try:
        for save, query, roles in combos:
            async def go(save=save, query=query, roles=roles):
                auth = {"enabled": True, "actions": {"save": save, "query": query}}
                st = await make_storage(backend, scratch, auth, False)
                env.patch_web_sleep()
                try:
                    if roles is not None:
                        st.authenticator.is_enabled = False
                        await st.set_auth_roles(env.PUBS[0], roles)
                        await env.quiesce(st)
                        st.authenticator.is_enabled = True
                    attempts = []
                    if roles is not None:
                        attempts = [lambda ch: (c15.auth_event(0, challenge=ch)[0], NOW)]
                    return await c15.drive_connection(st, attempts, 0)
                finally:
                    await close_storage(st)
            o = env.run(go())
            mc = {"backend": backend, "enabled": True, "save": save, "query": query, "token": roles, "ov": False,
                  "marked": "", "stored": [], "live": [], "writer": ALPHABET}
            mo = model_batch("c14.cell", [mc])[0]
            cc = {"backend": backend, "save": save, "query": query, "roles": roles}
            suite.case(cc, nontrivial=True)
            raw = o["raw"]
            ok = [f for f in raw if f[0] == "OK"]
            notices = [f[1] for f in raw if f[0] == "NOTICE"]
            io = {"add": "done" if (ok and ok[0][2]) else ("restricted" if ok and str(ok[0][3]).startswith("restricted") else "other"),
                  "sub": "started" if any(f[0] == "EOSE" for f in raw) else ("restricted" if any(str(x).startswith("restricted") for x in notices) else "other")}
            suite.count("event_" + io["add"])
            suite.count("req_" + io["sub"])
            if io != {"add": mo["add"], "sub": mo["sub"]}:
                suite.disagree(cc, {"add": mo["add"], "sub": mo["sub"]}, dict(io, frames=raw[:6]))
            vd = model_batch("c14.holds", [dict(mc, obs={"add": io["add"], "sub": io["sub"], "stored": [], "live": [], "registered": False})])[0]
            if vd != "ok":
                suite.violate(vd, {"kind": "web", "case": cc}, "websocket answers to EVENT/REQ: " + vd, observed=raw[:6])
    finally:
        scratch.close()


def run(tier, seed):
    suites = []
    rng = rng_for(seed, "c14")
    s0 = Suite("corr:can-do")
    s0.rule = ("Authenticator.can_do for enabled/disabled x 16 role sets per action x 17 tokens x {save,query} with a target, plus the "
               "unconfigured defaults; non-trivial = authentication enabled")
    run_can_do(s0)
    suites.append(s0)

    for backend in ("sql", "kv"):
        s = Suite("corr:authz-" + backend)
        s.rule = ("matrix save-roles x query-roles x token (none + 16 subsets of {a,r,w,s}) on a real %s store with an output validator "
                  "rejecting a marked author: per cell the connection submits a valid event (stored? broadcast? refusal wording), opens a "
                  "REQ matching two stored events (one of the marked author) and this cell's live events (served? registered? which "
                  "stored events arrive), then a privileged writer submits a marked and a clean event (which arrive live); quick: 12 "
                  "(save,query) pairs x all 17 tokens, thorough: all 256 pairs; every cell is distinct = non-trivial" % backend)
        groups = sample_groups(rng, 12) if tier == "quick" else sample_groups(rng, 256)
        run_matrix(s, backend, groups, ov=True)
        run_matrix(s, backend, [("a", "a", [None, "w"]), ("w", "r", [None, "rw"])], ov=False)
        suites.append(s)

    s2 = Suite("corr:roles")
    s2.rule = ("random sequences of 1-9 set/get operations over 5 pubkeys (incl. an upper-case twin and a non-key string) and 13 role "
               "strings (upper case, duplicates, empty) on both backends (SQL auth table; LMDB kind-31494 service events), authentication "
               "disabled and enabled-with-defaults; each get compared with the model and with 'lower-cased character set of the last "
               "assignment, default {a} if none'; non-trivial = at least two assignments")
    for backend in ("sql", "kv"):
        run_roles(s2, backend, rng, 25 if tier == "quick" else 300, enabled=False)
        run_roles(s2, backend, rng, 8 if tier == "quick" else 60, enabled=True)
    suites.append(s2)

    s3 = Suite("corr:authz-web")
    s3.rule = ("web.start_client connections (unauthenticated or authenticated via a real NIP-42 answer as a pubkey with stored roles) "
               "sending EVENT and REQ: OK false / NOTICE must start with 'restricted' exactly when the roles do not intersect")
    combos = [("w", "r", r) for r in (None, "", "w", "r", "rw", "a", "s")] + [("a", "a", None), ("a", "a", "w"), ("", "", "arws"), ("s", "a", None)]
    for backend in ("sql", "kv"):
        run_web(s3, backend, combos)
    suites.append(s3)
    from .. import extra
    return list(suites) + [extra.suite_roles_concurrent(tier, seed), extra.suite_roles_burst(tier, seed), extra.suite_output_validator_context(tier, seed), extra.suite_homeserver_output(tier, seed), extra.suite_two_workers(tier, seed), extra.suite_roles_forged(tier, seed), extra.suite_authz_corners(tier, seed)]


def replay(payload):
    import logging
    import os
    import sys
    logging.disable(logging.CRITICAL)
    v = payload["violation"]
    c = v["case"]
    s = Suite("replay")
    k = c["case"]
    if c["kind"] == "cell":
        run_matrix(s, k["backend"], [(k["save"], k["query"], [k["token"]])], ov=k["ov"])
    elif c["kind"] == "roles":
        scratch = env.Scratch()
        try:
            roles_one(s, k["backend"], scratch, k["ops"], k["enabled"])
        finally:
            scratch.close()
    elif c["kind"] == "web":
        run_web(s, k["backend"], [(k["save"], k["query"], k["roles"])])
    for x in s.violations:
        print("still failing:", x["cls"], x["what"], x["observed"])
    print("replay:", "FAIL" if s.violations else "pass")
    sys.stdout.flush()
    os._exit(1 if s.violations else 0)
