"""Development check of the shared asynchronous-core model (not a property; not in the manifest)."""
from .. import relay

ASSUMPTIONS = []


def run(tier, seed):
    return [relay.suite_validate(tier, seed), relay.suite_live(tier, seed), relay.suite_relay(tier, seed, "sql"),
            relay.suite_relay(tier, seed, "kv")]


def replay(payload):
    return 0
