"""C01 - a REQ is answered only with accepted, matching events; filters are pure data.  SQL half: harness/sqlm.py, LMDB half: harness/kvm.py (see design.d)."""
from .. import common
from .. import sqlm
from .. import kvm as kvb

ASSUMPTIONS = [
    "SQLite's evaluation of a parsed statement and its atomic commit are trusted (modelled, pinned by correspondence)",
    "py-lmdb behaves like shims/lmdb.py (ordered map, tracked cursors, copy-on-commit write transactions, 511-byte keys)",
    "admitted events are well formed (C03): string/integer tag items, lower-case hex ids",
]


def run(tier, seed):
    common.PID_ALIAS.update({"SQLM": "C01", "KVM": "C01"})
    # an EVENT frame pushed live is also sent in answer to a REQ: live matching must imply NIP-01 matching
    from .. import relay
    common.PID_ALIAS.update({"RELAY": "C01"})
    return common.drop_foreign(sqlm.suites_c01(tier, seed) + kvb.suites_c01(tier, seed) + [relay.suite_live(tier, seed, pid="C01"),
                                  relay.suite_relay(tier, seed, "sql", n=20 if tier == "quick" else 100, label="answers", pid="C01"), relay.suite_exhaustive(tier, seed, "sql", pid="C01"),
                                  relay.suite_validate(tier, seed, pid="C01", entry="filt.validate")], "C01")


def replay(payload):
    common.PID_ALIAS.update({"SQLM": "C01", "KVM": "C01"})
    v = payload.get("violation") or {}
    suite = str(v.get("suite", ""))
    if "sql" in suite:
        return sqlm.replay(payload)
    try:
        return kvb.replay(payload, "C01")
    except TypeError:
        return kvb.replay(payload)
