"""C11 - query answers are unaffected by unrelated data and monotone in the filter.  SQL half: harness/sqlm.py, LMDB half: harness/kvm.py (see design.d)."""
from .. import common
from .. import sqlm
from .. import kvm as kvb

ASSUMPTIONS = [
    "SQLite's evaluation of a parsed statement and its atomic commit are trusted (modelled, pinned by correspondence)",
    "py-lmdb behaves like shims/lmdb.py (ordered map, tracked cursors, copy-on-commit write transactions, 511-byte keys)",
    "admitted events are well formed (C03): string/integer tag items, lower-case hex ids",
]


def run(tier, seed):
    common.PID_ALIAS.update({"SQLM": "C11", "KVM": "C11"})
    from .. import relay, extra
    return common.drop_foreign(sqlm.suites_c11(tier, seed) + kvb.suites_c11(tier, seed)
                               + [relay.suite_validate(tier, seed, pid="C11", entry="filt.validate"), extra.suite_filter_object_reuse(tier, seed)], "C11")


def replay(payload):
    common.PID_ALIAS.update({"SQLM": "C11", "KVM": "C11"})
    v = payload.get("violation") or {}
    suite = str(v.get("suite", ""))
    if "sql" in suite:
        return sqlm.replay(payload)
    try:
        return kvb.replay(payload, "C11")
    except TypeError:
        return kvb.replay(payload)
