"""C20 - cross-worker notifier: the real NotifyServer.handle_notify / NotifyClient.connect /
NotifyClient.notify coroutines on asyncio.StreamReader objects fed chunk by chunk, stub
writers and stub storages, against the extracted model (sequential schedules: exact
equality of every write and every lookup) and against the executable statement `c20.holds`
(all schedules, including suspending drains, failing peers, a late joiner)."""
import asyncio
import hashlib
import itertools

from .. import common
from ..common import Suite, model_batch, rng_for

ASSUMPTIONS = [
    "TCP delivers each connection's bytes in order and unmodified (the model's only assumption about the transport)",
    "announced ids are 32 bytes (event.id_bytes of an admitted event, C03) and distinct within a case",
    "a fixed set of workers is connected for the duration of a case (a late joiner is exercised by the oracle only)",
    "asyncio.StreamReader.readexactly/feed_data/feed_eof behave as documented (buffer; first n bytes; IncompleteReadError at EOF)",
]


# ----------------------------------------------------------------------------- stubs
class FakeEvent:
    def __init__(self, idb):
        self.id_bytes = idb
        self.id = idb.hex()


class StubStorage:
    def __init__(self, known=None):
        self.known = known            # None: everything is found
        self.lookups = []
        self.fanouts = []

    async def get_event(self, hexid):
        self.lookups.append(bytes.fromhex(hexid))
        if self.known is None or bytes.fromhex(hexid) in self.known:
            return FakeEvent(bytes.fromhex(hexid))
        return None

    async def notify_all_connected(self, event):
        self.fanouts.append(event.id_bytes)


class DownWriter:
    """writer of server connection j: what the server writes towards worker j"""

    def __init__(self, j, suspend=False):
        self.j = j
        self.writes = []
        self.buf = bytearray()
        self.suspend = suspend
        self.failing = False
        self.closed = False

    def get_extra_info(self, key):
        return ("127.0.0.1", 40000 + self.j)

    def write(self, data):
        if self.failing:
            return
        self.writes.append(bytes(data))
        self.buf += data

    async def drain(self):
        if self.failing:
            await asyncio.sleep(0)
            raise ConnectionResetError("Connection lost")
        if self.suspend:
            await asyncio.sleep(0)

    def close(self):
        self.closed = True


class UpWriter:
    """writer of worker i's client: what worker i writes towards the server"""

    def __init__(self):
        self.buf = bytearray()
        self.closed = False

    def write(self, data):
        self.buf += data

    async def drain(self):
        pass

    def close(self):
        self.closed = True


class AsyncioProxy:
    """handed to nostr_relay.notifier as its `asyncio`: connect()'s sleep(2) is immediate and
    open_connection returns the harness' streams; everything else is the real module"""

    def __init__(self):
        self.pending = []

    def __getattr__(self, name):
        return getattr(asyncio, name)

    async def sleep(self, delay, result=None):
        await asyncio.sleep(0)
        return result

    async def open_connection(self, address, port):
        return self.pending.pop(0)


async def spin(k):
    for _ in range(k):
        await asyncio.sleep(0)


# ----------------------------------------------------------------------------- drivers
async def impl_client(chunks, known, eof=True):
    from nostr_relay import notifier
    proxy = AsyncioProxy()
    notifier.asyncio = proxy
    try:
        st = StubStorage(set(known) if known is not None else None)
        cl = notifier.NotifyClient(st)
        r = asyncio.StreamReader()
        proxy.pending.append((r, UpWriter()))
        task = asyncio.create_task(cl.connect())
        await spin(6)
        for c in chunks:
            r.feed_data(c)
            await spin(8 + 4 * (len(c) // 32 + 1))
        ended = None
        if eof:
            r.feed_eof()
            await spin(10)
            ended = task.done()
        if not task.done():
            task.cancel()
            await asyncio.gather(task, return_exceptions=True)
        return {"lookups": st.lookups, "fanouts": st.fanouts, "ended": ended}
    finally:
        notifier.asyncio = asyncio


async def impl_net(n, ops, suspend=False, late=None):
    """ops: ["announce", i, id] | ["up", i, k] | ["eof", i] | ["down", j, k] | ["ceof", j] |
            ["fail", j] (writer j starts failing) | ["upmulti", [[i,k],...]] (several deliveries before the loop runs)
    late: a connection joining after the first `late` ops (not a worker of the case)."""
    from nostr_relay import notifier
    proxy = AsyncioProxy()
    notifier.asyncio = proxy
    tasks = []
    try:
        srv = notifier.NotifyServer()
        sreaders = [asyncio.StreamReader() for _ in range(n)]
        dws = [DownWriter(j, suspend) for j in range(n)]
        handlers = [asyncio.create_task(srv.handle_notify(sreaders[i], dws[i])) for i in range(n)]
        tasks += handlers
        stores = [StubStorage() for _ in range(n)]
        clients, creaders, uws, delivered = [], [], [], [0] * n
        ctasks = []
        for j in range(n):
            cl = notifier.NotifyClient(stores[j])
            r, w = asyncio.StreamReader(), UpWriter()
            proxy.pending.append((r, w))
            t = asyncio.create_task(cl.connect())
            await spin(6)
            clients.append(cl), creaders.append(r), uws.append(w), ctasks.append(t)
        tasks += ctasks
        big = 12 + 6 * (n + 2)

        async def up(i, k):
            chunk = bytes(uws[i].buf[:k])
            if chunk:
                del uws[i].buf[:k]
                sreaders[i].feed_data(chunk)
            return len(chunk)

        for idx, o in enumerate(ops):
            if late is not None and idx == late:
                lr, lw = asyncio.StreamReader(), DownWriter(n + 7, suspend)
                tasks.append(asyncio.create_task(srv.handle_notify(lr, lw)))
                # deliberately no spin: it registers itself while the others may be mid-forward
            kind = o[0]
            if kind == "announce":
                await clients[o[1]].notify(FakeEvent(o[2]))
            elif kind == "up":
                got = await up(o[1], o[2])
                await spin(big + 2 * (n + 2) * (got // 32 + 1))
            elif kind == "upmulti":
                tot = 0
                for i, k in o[1]:
                    tot += await up(i, k)
                await spin(big + 2 * (n + 2) * (tot // 32 + len(o[1]) + 1))
            elif kind == "upjoin":
                # deliveries, then a new connection registers while the handlers are in mid-forward
                tot = 0
                for i, k in o[1]:
                    tot += await up(i, k)
                await spin(o[2])
                lr, lw = asyncio.StreamReader(), DownWriter(n + 7, suspend)
                tasks.append(asyncio.create_task(srv.handle_notify(lr, lw)))
                await spin(big + 2 * (n + 2) * (tot // 32 + len(o[1]) + 1))
            elif kind == "eof":
                sreaders[o[1]].feed_eof()
                await spin(big)
            elif kind == "fail":
                dws[o[1]].failing = True
            elif kind == "down":
                j, k = o[1], o[2]
                chunk = bytes(dws[j].buf[delivered[j]:delivered[j] + k])
                if chunk:
                    delivered[j] += len(chunk)
                    creaders[j].feed_data(chunk)
                    await spin(8 + 4 * (len(chunk) // 32 + 1))
            elif kind == "ceof":
                creaders[o[1]].feed_eof()
                await spin(10)
        await spin(big)
        return {"lookups": [s.lookups for s in stores], "fanouts": [s.fanouts for s in stores], "writes": [d.writes for d in dws],
                "closed": [h.done() for h in handlers],
                "pending_down": [len(d.buf) - delivered[j] for j, d in enumerate(dws)],
                "pending_up": [len(w.buf) for w in uws]}
    finally:
        for t in tasks:
            if not t.done():
                t.cancel()
        await asyncio.gather(*tasks, return_exceptions=True)
        notifier.asyncio = asyncio


# ----------------------------------------------------------------------------- case construction
def mkid(label):
    return hashlib.sha256(("c20-%s" % (label,)).encode()).digest()


def chunkings_by_cuts(total, cuts):
    pts = [0] + sorted(cuts) + [total]
    return [pts[k + 1] - pts[k] for k in range(len(pts) - 1)]


INTERESTING = [1, 2, 10, 16, 31, 32, 33, 47, 48, 63, 64, 65, 80, 95]


def enum_chunkings(nids, max_chunks=6):
    """cut sets drawn from the interesting positions (every boundary and its neighbours, mid-id
    positions), all of them with <= max_chunks chunks; plus every single cut, and every pair of
    cuts for <= 2 ids"""
    total = 32 * nids
    cand = [c for c in INTERESTING if c < total]
    seen = set()
    out = []

    def add(cuts):
        key = tuple(sorted(cuts))
        if key not in seen:
            seen.add(key)
            out.append(chunkings_by_cuts(total, key))
    for k in range(0, max_chunks):
        for cuts in itertools.combinations(cand, k):
            add(cuts)
    for c in range(1, total):
        add((c,))
    if nids <= 2:
        for cuts in itertools.combinations(range(1, total), 2):
            add(cuts)
    return out


def split_stream(stream, sizes):
    out, p = [], 0
    for s in sizes:
        out.append(stream[p:p + s])
        p += s
    return out


def net_case_from_chunkings(n, sender, ids, up_sizes, down_sizes):
    ops = [["announce", sender, i] for i in ids]
    ops += [["up", sender, s] for s in up_sizes]
    for j in range(n):
        if j != sender:
            ops += [["down", j, s] for s in down_sizes]
    return {"n": n, "ops": ops}


def gen_random_net(rng, max_ids, n=None, cut=True):
    n = n or rng.choice([2, 3, 3, 4])
    nid = rng.randint(1, max_ids)
    ops = []
    alive_up = [True] * n
    alive_down = [True] * n
    pending_up = [0] * n
    k = 0
    sizes = [1, 2, 5, 10, 16, 22, 31, 32, 33, 40, 64, 65, 96, 100]
    while k < nid or any(pending_up[i] for i in range(n) if alive_up[i]):
        r = rng.random()
        if r < 0.35 and k < nid:
            i = rng.randrange(n)
            if alive_up[i]:
                ops.append(["announce", i, mkid((rng.random(), k))])
                pending_up[i] += 32
                k += 1
        elif r < 0.75:
            i = rng.randrange(n)
            if alive_up[i] and pending_up[i]:
                s = min(rng.choice(sizes), pending_up[i])
                ops.append(["up", i, s])
                pending_up[i] -= s
        elif r < 0.97:
            j = rng.randrange(n)
            if alive_down[j]:
                ops.append(["down", j, rng.choice(sizes)])
        elif cut and rng.random() < 0.5:
            i = rng.randrange(n)
            if alive_up[i]:
                # the worker's connection is cut: whatever it has not delivered is lost, possibly mid-id
                alive_up[i] = False
                ops.append(["eof", i])
        if len(ops) > 40 * max_ids + 200:
            break
    # flush: every client that is still connected receives everything
    for j in range(n):
        if alive_down[j]:
            for _ in range(3):
                ops.append(["down", j, 32 * (nid + 2)])
    return {"n": n, "ops": ops}


def case_anns(case):
    """-> (anns per worker, upstream-complete per worker) computed from the ops alone"""
    n = case["n"]
    anns = [[] for _ in range(n)]
    sent = [0] * n
    cut = [False] * n
    for o in case["ops"]:
        if o[0] == "announce":
            anns[o[1]].append(o[2])
        elif o[0] == "up" and not cut[o[1]]:
            sent[o[1]] = min(sent[o[1]] + o[2], 32 * len(anns[o[1]]))
        elif o[0] in ("upmulti", "upjoin"):
            for i, k in o[1]:
                if not cut[i]:
                    sent[i] = min(sent[i] + k, 32 * len(anns[i]))
        elif o[0] == "eof":
            cut[o[1]] = True
    complete = [sent[i] == 32 * len(anns[i]) for i in range(n)]
    return anns, complete


def model_ops(case):
    """ops the model understands (fail / ceof / upmulti are implementation-side only)"""
    out = []
    for o in case["ops"]:
        if o[0] in ("announce", "up", "eof", "down"):
            out.append(o)
    return out


# ----------------------------------------------------------------------------- running
def judge(suite, case, obs, exact, mo=None, skip=()):
    """exact: compare writes/lookups with the model output `mo`; always: evaluate c20.holds on the
    implementation's lookups for every worker not in `skip`."""
    n = case["n"]
    if exact:
        impl = {"lookups": obs["lookups"], "writes": obs["writes"], "closed": obs["closed"]}
        mod = {"lookups": mo["lookups"], "writes": mo["writes"], "closed": mo["closed"]}
        if impl != mod:
            suite.disagree(case, mod, impl)
    anns, complete = case_anns(case)
    hc = []
    cut = {o[1] for o in case["ops"] if o[0] == "eof"}     # a worker whose connection is gone is no longer a "connected worker"
    for j in range(n):
        if j in skip or j in cut:
            continue
        down_done = obs["pending_down"][j] == 0 and not any(o[0] == "ceof" and o[1] == j for o in case["ops"])
        hc.append((j, {"anns": anns, "j": j, "complete": [c and down_done for c in complete], "seen": obs["lookups"][j],
                       "fanouts": obs["fanouts"][j], "known": None}))
    return hc


def run_net_cases(suite, cases, exact=True):
    async def all_impl():
        out = []
        for c in cases:
            out.append(await impl_net(c["n"], c["ops"], suspend=c.get("suspend", False), late=c.get("late")))
        return out
    from .. import env
    obs = env.run(all_impl())
    mos = model_batch("c20.net", [{"n": c["n"], "ops": model_ops(c)} for c in cases]) if exact else [None] * len(cases)
    hcs, owners = [], []
    for c, o, mo in zip(cases, obs, mos):
        anns, complete = case_anns(c)
        nsplit = sum(1 for x in c["ops"] if x[0] in ("up", "down") and x[2] % 32)
        suite.case({"n": c["n"], "ops": c["ops"][:10], "n_ops": len(c["ops"])}, nontrivial=nsplit > 0 or any(not x for x in complete))
        suite.count("workers_%d" % c["n"])
        suite.count("ids_%s" % min(sum(len(a) for a in anns), 50))
        suite.count("split_chunks" if nsplit else "aligned_chunks")
        if not all(complete):
            suite.count("cut_mid_stream")
        for j, h in judge(suite, c, o, exact, mo, skip=c.get("skip", ())):
            hcs.append(h)
            owners.append((c, j, o))
    verdicts = model_batch("c20.holds", hcs)
    for (c, j, o), h, v in zip(owners, hcs, verdicts):
        if v != "ok":
            suite.violate(v, {"kind": "net", "case": c, "worker": j},
                          "worker %d's looked-up ids are not an interleaving of the other workers' announcements: %s" % (j, v),
                          expected=[[x.hex() for x in a] for a in h["anns"]], observed=[x.hex() for x in h["seen"]])


def run_client_cases(suite, cases):
    async def all_impl():
        return [await impl_client(c["chunks"], c.get("known")) for c in cases]
    from .. import env
    obs = env.run(all_impl())
    mos = model_batch("c20.client", [{"chunks": c["chunks"], "known": c["known"] if c.get("known") is not None else c["ids"]} for c in cases])
    hcs = []
    for c, o, mo in zip(cases, obs, mos):
        sizes = [len(x) for x in c["chunks"]]
        suite.case({"chunk_sizes": sizes, "n_ids": len(c["ids"])}, nontrivial=any(s % 32 for s in sizes))
        suite.count("chunks_%d" % len(sizes))
        suite.count("ids_%d" % len(c["ids"]))
        impl = {"lookups": o["lookups"], "fanouts": o["fanouts"]}
        mod = {"lookups": mo["lookups"], "fanouts": mo["fanouts"]}
        if impl != mod:
            suite.disagree({"chunk_sizes": sizes, "ids": c["ids"]}, mod, impl)
        if o["ended"] is False:
            suite.disagree({"chunk_sizes": sizes, "ids": c["ids"]}, "loop ends at EOF", "loop still running after EOF")
        total = sum(sizes)
        hcs.append({"anns": [c["ids"], []], "j": 1, "complete": [total >= 32 * len(c["ids"]), True], "seen": o["lookups"],
                    "fanouts": o["fanouts"], "known": c.get("known")})
    verdicts = model_batch("c20.holds", hcs)
    for c, h, v in zip(cases, hcs, verdicts):
        if v != "ok":
            suite.violate(v, {"kind": "client", "chunks": c["chunks"], "ids": c["ids"], "known": c.get("known")},
                          "ids passed to get_event are not the ids that were sent: %s" % v,
                          expected=[x.hex() for x in c["ids"]], observed=[x.hex() for x in h["seen"]])


def corpus():
    A, B, C, D = mkid("A"), mkid("B"), mkid("C"), mkid("D")
    net = [
        # F23 witness: one id delivered to the server as 10 + 22 bytes, forwarded whole to the client in 10 + 22
        {"n": 2, "ops": [["announce", 0, A], ["up", 0, 10], ["up", 0, 22], ["down", 1, 10], ["down", 1, 22]]},
        # two senders' pieces interleaved at the server
        {"n": 3, "ops": [["announce", 0, A], ["announce", 1, B], ["up", 0, 10], ["up", 1, 5], ["up", 0, 22], ["up", 1, 27],
                         ["down", 2, 64], ["down", 0, 32], ["down", 1, 32]]},
        # coalesced ids: three ids in one 96-byte delivery up, 33 + 63 down
        {"n": 2, "ops": [["announce", 0, A], ["announce", 0, B], ["announce", 0, C], ["up", 0, 96], ["down", 1, 33], ["down", 1, 63]]},
        # worker 0 cut in the middle of its second id: the partial id is never delivered
        {"n": 3, "ops": [["announce", 0, A], ["announce", 0, B], ["up", 0, 45], ["eof", 0], ["announce", 1, C], ["up", 1, 32],
                         ["down", 2, 100], ["down", 0, 100], ["down", 1, 100]]},
        # EOF exactly at an id boundary
        {"n": 2, "ops": [["announce", 0, A], ["up", 0, 32], ["eof", 0], ["down", 1, 32]]},
        # not echoed to the sender
        {"n": 2, "ops": [["announce", 0, A], ["announce", 1, B], ["up", 0, 32], ["up", 1, 32], ["down", 0, 64], ["down", 1, 64]]},
    ]
    oracle_only = [
        # a peer whose connection fails must not stop the others from being served
        {"n": 3, "skip": (2,), "ops": [["announce", 0, A], ["up", 0, 32], ["fail", 2], ["announce", 0, B], ["up", 0, 32],
                                          ["announce", 0, C], ["up", 0, 32], ["down", 1, 200]]},
        # ... whatever its place in the server's table: healthy peers registered AFTER the broken one get every id as well
        {"n": 3, "skip": (1,), "ops": [["announce", 0, A], ["up", 0, 32], ["fail", 1], ["announce", 0, B], ["up", 0, 32],
                                          ["announce", 0, C], ["up", 0, 32], ["down", 2, 200]]},
        {"n": 4, "skip": (1, 2), "ops": [["announce", 0, A], ["up", 0, 32], ["fail", 1], ["announce", 3, B], ["up", 3, 32], ["fail", 2],
                                            ["announce", 0, C], ["up", 0, 32], ["announce", 3, D], ["up", 3, 32], ["down", 3, 200], ["down", 0, 200]]},
        {"n": 3, "skip": (0,), "ops": [["fail", 0], ["announce", 1, A], ["up", 1, 32], ["announce", 1, B], ["up", 1, 32], ["down", 2, 200]]},
        # a connection registering while a handler is suspended in drain()
        {"n": 3, "suspend": True, "ops": [["announce", 0, A], ["announce", 0, B], ["announce", 0, C], ["announce", 1, D],
                                           ["upjoin", [[0, 96], [1, 32]], 3], ["down", 2, 200], ["down", 1, 200], ["down", 0, 200]]},
        # suspended drains: handlers of two senders interleave their forwarding loops
        {"n": 4, "suspend": True, "ops": [["announce", 0, A], ["announce", 1, B], ["announce", 0, C], ["announce", 2, D],
                                           ["upmulti", [[0, 40], [1, 7], [2, 31]]], ["upmulti", [[0, 24], [1, 25], [2, 1]]],
                                           ["down", 3, 200], ["down", 2, 200], ["down", 1, 200], ["down", 0, 200]]},
    ]
    return net, oracle_only


def run(tier, seed):
    rng = rng_for(seed, "c20")
    suites = []
    s0 = Suite("corr:notify-corpus")
    s0.rule = ("fixed corpus: split id (F23 witness), interleaved senders, coalesced ids, disconnect mid-id, EOF at a boundary, no echo; "
               "oracle-only: failing peer, late joiner, suspended drains; non-trivial = some chunk not a multiple of 32 bytes or a stream cut")
    net, oracle_only = corpus()
    run_net_cases(s0, net, exact=True)
    run_net_cases(s0, oracle_only, exact=False)
    suites.append(s0)

    s1 = Suite("corr:notify-client")
    s1.rule = ("NotifyClient.connect fed every chunking of 1-3 ids whose cut points are drawn from the boundary/mid-id position set "
               "(<= 6 chunks), every single cut, every pair of cuts for <= 2 ids; some with unknown ids (no fan-out) and a trailing partial id; "
               "lookups and fan-outs equal to the model; non-trivial = some chunk not a multiple of 32")
    ids3 = [mkid(i) for i in range(3)]
    ccases = []
    for nids in (1, 2, 3):
        ids = ids3[:nids]
        stream = b"".join(ids)
        for sizes in enum_chunkings(nids):
            ccases.append({"ids": ids, "chunks": split_stream(stream, sizes), "known": None})
    # unknown ids / trailing partial id
    for nids in (1, 2, 3):
        ids = ids3[:nids]
        for extra in (1, 16, 31):
            stream = b"".join(ids) + mkid("partial")[:extra]
            for cut in (5, 32, 33, len(stream) - 1):
                if 0 < cut < len(stream):
                    ccases.append({"ids": ids, "chunks": [stream[:cut], stream[cut:]], "known": ids[:1]})
    if tier == "quick":
        # keep the quick tier quick: all cases for <= 2 ids, a seeded third of the 3-id chunkings
        small = [c for c in ccases if len(c["ids"]) <= 2 and len(c["chunks"]) <= 2]
        pairs = [c for c in ccases if len(c["ids"]) <= 2 and len(c["chunks"]) > 2]
        big = [c for c in ccases if len(c["ids"]) == 3]
        ccases = small + rng.sample(pairs, min(len(pairs), 900)) + big
    run_client_cases(s1, ccases)
    suites.append(s1)

    s2 = Suite("corr:notify-net")
    s2.rule = ("NotifyServer.handle_notify x n + NotifyClient.connect/notify x n wired through harness pipes; (a) one sender, every enumerated "
               "chunking applied to the way up (server reads) with the way down aligned, and to the way down with the way up aligned, and "
               "both; (b) seeded random op sequences (announce/deliver up/deliver down/cut a worker) for 2-4 workers; every server write and "
               "every client lookup equal to the model; executable statement evaluated on each worker's lookups; "
               "non-trivial = some chunk not a multiple of 32 or a stream cut")
    ncases = []
    for nids in (1, 2, 3):
        ids = ids3[:nids]
        ch = enum_chunkings(nids)
        if tier == "quick":
            ch = [c for c in ch if len(c) <= 3] if nids < 3 else rng.sample(ch, 250)
            if nids == 2:
                ch = rng.sample(ch, 300)
        for sizes in ch:
            ncases.append(net_case_from_chunkings(2, 0, ids, sizes, [32 * nids]))
            ncases.append(net_case_from_chunkings(3, 1, ids, [32 * nids], sizes))
        for sizes in (ch if tier != "quick" else ch[:60]):
            ncases.append(net_case_from_chunkings(3, 2, ids, sizes, list(reversed(sizes))))
    nrand = 150 if tier == "quick" else 500
    for _ in range(nrand):
        ncases.append(gen_random_net(rng, 12 if tier == "quick" else 50, n=None if tier == "quick" else rng.choice([2, 3, 4, 4])))
    run_net_cases(s2, ncases, exact=True)
    suites.append(s2)

    s3 = Suite("oracle:notify-concurrent")
    s3.rule = ("random cases with suspending drains and several deliveries before the loop runs (handlers of different senders interleave "
               "their forwarding loops); no model equality (the interleaving is the event loop's), executable statement only; "
               "non-trivial = some chunk not a multiple of 32 or a stream cut")
    ocases = []
    for _ in range(80 if tier == "quick" else 400):
        c = gen_random_net(rng, 10 if tier == "quick" else 50, cut=False)
        # merge runs of consecutive "up" ops into one multi-delivery
        ops, cur = [], []
        for o in c["ops"]:
            if o[0] == "up":
                cur.append([o[1], o[2]])
                if len(cur) == 3:
                    ops.append(["upmulti", cur])
                    cur = []
            else:
                if cur and o[0] != "announce":
                    ops.append(["upmulti", cur])
                    cur = []
                ops.append(o)
        if cur:
            ops.append(["upmulti", cur])
        # announcements must precede the deliveries that carry them: keep order, flush at the end
        c["ops"] = ops + [["down", j, 10 ** 6] for j in range(c["n"])]
        c["suspend"] = True
        ocases.append(c)
    run_net_cases(s3, ocases, exact=False)
    suites.append(s3)
    from .. import extra
    return list(suites) + [extra.suite_announce_all_accepted(tier, seed), extra.suite_two_workers(tier, seed)]


def replay(payload):
    v = payload["violation"]
    c = v["case"]
    s = Suite("replay")
    if c.get("kind") == "client":
        run_client_cases(s, [{"ids": c["ids"], "chunks": c["chunks"], "known": c.get("known")}])
    else:
        case = c["case"]
        case["ops"] = [[o[0], [list(x) for x in o[1]]] + list(o[2:]) if o[0] in ("upmulti", "upjoin") else o for o in case["ops"]]
        if "skip" in case:
            case["skip"] = tuple(case["skip"])
        run_net_cases(s, [case], exact=False)
    for x in s.violations:
        print("still failing:", x["cls"], x["what"])
    print("replay:", "FAIL" if s.violations else "pass")
    return 1 if s.violations else 0
