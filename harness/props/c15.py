"""C15 - NIP-42: correspondence of Authenticator.authenticate and of the AUTH branch of
web.start_client with the model over the whole mutation neighbourhood of a valid answer and
over all orders of <= 3 attempts per connection; the executable statements c15.holds /
c15.conn_holds are evaluated on the implementation's observations; challenge draws."""
import asyncio
import itertools
import json

from .. import common, env
from ..common import Suite, model_batch, rng_for

ASSUMPTIONS = [
    "Event.verify() is an oracle: true for events signed by the claimed key over the NIP-01 id, false otherwise, "
    "raising IndexError on an empty tag (aionostr's own tag loop)",
    "tags are lists of strings (a non-string tag item makes `in <str>` raise TypeError; not generated)",
    "challenge unpredictability is not proved: get_challenge is pinned to secrets.token_hex(16) by the translator and the OS CSPRNG is trusted; "
    "10^4 draws are checked for length and distinctness",
    "clock injected by replacing nostr_relay.auth.time",
    "identity on a connection is observed through token-dependent behaviour (role-restricted EVENT and REQ), three identities with distinct role sets",
]

NOW = env.NOW
URL = "ws://localhost:6969"
MSG_CLASS = [("Bad signature", "BadSig"), ("Wrong kind", "WrongKind"), ("Too old", "TooOld"), ("Too new", "TooNew"),
             ("Wrong domain", "WrongDomain"), ("Wrong challenge", "WrongChallenge"), ("Missing required tags", "Missing"),
             ("Invalid", "Invalid")]


def classify(msg):
    for needle, cls in MSG_CLASS:
        if needle in msg:
            return cls
    return "other:" + msg


# ----------------------------------------------------------------------------- building AUTH payloads
def auth_event(who=0, challenge="c", url=URL, created_at=NOW, kind=22242, tags=None, sign="own"):
    """-> (json payload, model payload). sign: own | other (another key's signature) | zero | claim (claims who+1's pubkey)"""
    tags = [["relay", url], ["challenge", challenge]] if tags is None else tags
    e = env.mk_event(who, kind, created_at, tags, "")
    verify = "true"
    if sign == "other":
        e["sig"] = env.PRIVS[(who + 1) % 4].sign_schnorr(bytes.fromhex(e["id"]), None).hex()
        verify = "false"
    elif sign == "zero":
        e["sig"] = "00" * 64
        verify = "false"
    elif sign == "claim":
        pk = env.PUBS[(who + 1) % 4]
        e["pubkey"] = pk
        e["id"] = env.compute_id(pk, created_at, kind, tags, "")
        e["sig"] = env.PRIVS[who].sign_schnorr(bytes.fromhex(e["id"]), None).hex()
        verify = "false"
    if any(len(t) == 0 for t in tags):
        verify = "IndexError"        # aionostr's verify() indexes tag[0] of every tag
    m = {"pubkey": e["pubkey"], "kind": kind, "created_at": created_at, "tags": tags, "verify": verify}
    return e, m


def mutations(who, ch, other_ch, urls_cfg):
    """every mutation of a valid answer listed in DESIGN 5/C15; yields (label, json payload, model payload, now)"""
    good_url = urls_cfg if isinstance(urls_cfg, str) else urls_cfg[0]
    out = []

    def add(label, now=NOW, payload=None, **kw):
        if payload is not None:
            out.append((label, payload[0], payload[1], now))
        else:
            kw.setdefault("challenge", ch)
            kw.setdefault("url", good_url)
            j, m = auth_event(who, **kw)
            out.append((label, j, m, now))
    add("valid")
    for k in (22241, 22243, 1, 0, 22242 + 65536):
        add("kind", kind=k)
    for s in ("other", "zero", "claim"):
        add("sig", sign=s)
    for c in (other_ch, "", ch[:-1], ch + "0", ch.upper(), ch[1:], "x" + ch):
        add("challenge", challenge=c)
    for d in (-601, -600, -599, -1, 0, 1, 599, 600, 601):
        add("time", created_at=NOW + d)
    R, C = ["relay", good_url], ["challenge", ch]
    tagsets = {
        "missing-relay": [C], "missing-challenge": [R], "missing-both": [], "swapped": [C, R],
        "dup-relay": [R, R, C], "dup-challenge": [R, C, C], "extra": [["p", env.PUBS[1]], R, ["e", "00" * 32], C, ["x"]],
        "bad-relay-after": [R, C, ["relay", "wss://evil.example"]], "bad-relay-before": [["relay", "wss://evil.example"], R, C],
        "bad-challenge-after": [R, C, ["challenge", other_ch]], "bad-challenge-before": [["challenge", other_ch], R, C],
        "short-relay": [["relay"], C], "short-relay-after": [R, C, ["relay"]], "short-challenge": [R, ["challenge"]],
        "short-challenge-after": [R, C, ["challenge"]], "empty-tag": [R, C, []], "empty-tag-first": [[], R, C],
        "long-tags": [R + ["x", "y"], C + ["z"]], "name-case": [["Relay", good_url], C], "name-prefix": [["relays", good_url], C],
        "only-short": [["relay"], ["challenge"]], "bad-before-short": [["relay", "nope"], ["challenge"]],
    }
    for lab, tags in tagsets.items():
        add("tags:" + lab, tags=tags)
    # relay URL variants: every proper substring and some superstrings of the configured URL
    subs = {good_url[i:j] for i in range(len(good_url)) for j in range(i, len(good_url) + 1)} - {good_url}
    for u in sorted(subs):
        add("url-substring", url=u)
    for u in (good_url + "/", "x" + good_url, good_url.upper(), good_url.replace("ws://", "wss://"), good_url + good_url, " " + good_url):
        add("url-superstring", url=u)
    if not isinstance(urls_cfg, str):
        for u in urls_cfg[1:]:
            add("url-second", url=u)
        add("url-join", url="".join(urls_cfg))
    out.append(("not-dict", ["x"], None, NOW))
    out.append(("not-dict", "str", None, NOW))
    out.append(("not-dict", None, None, NOW))
    j, m = auth_event(who, challenge=ch, url=good_url)
    out.append(("ctor", dict(j, extra=1), {"ctor_exc": "TypeError"}, NOW))
    out.append(("ctor", dict(j, content=5), {"ctor_exc": "TypeError"}, NOW))
    return out


class RoleStore:
    async def get_auth_roles(self, pubkey):
        return set("a")


def impl_authenticate(urls_cfg, ch, payload, now):
    from nostr_relay.auth import Authenticator
    from nostr_relay.errors import AuthenticationError
    opts = {"enabled": True}
    if urls_cfg is not None:
        opts["relay_urls"] = urls_cfg
    a = Authenticator(RoleStore(), opts)
    env.set_clock(now)

    async def go():
        try:
            tok = await a.authenticate(payload, challenge=ch)
            return {"token": tok["pubkey"]}
        except AuthenticationError as e:
            return {"refused": classify(str(e))}
        except Exception as e:  # noqa
            return {"crashed": type(e).__name__}
    return env.run(go())


def run_mutations(suite, who, ch, other_ch, urls_cfg):
    muts = mutations(who, ch, other_ch, URL if urls_cfg is None else urls_cfg)
    cases = [{"now": now, "urls": urls_cfg, "challenge": ch, "payload": m} for _, _, m, now in muts]
    impls = [impl_authenticate(urls_cfg, ch, j, now) for _, j, _, now in muts]
    mouts = model_batch("c15.authenticate", cases)
    verdicts = model_batch("c15.holds", [dict(c, obs=o) for c, o in zip(cases, impls)])
    for (label, j, m, now), c, io, mo, vd in zip(muts, cases, impls, mouts, verdicts):
        cc = {"label": label, "urls": urls_cfg, "challenge": ch, "now": now, "payload": j, "model_payload": m}
        suite.case(cc, nontrivial=True)
        suite.count(label.split(":")[0])
        suite.count("result_" + next(iter(io)))
        if io != mo:
            suite.disagree(cc, mo, io)
        if vd != "ok":
            suite.violate(vd, {"kind": "authenticate", "case": cc}, "authenticate() " + vd, expected="token only for a valid answer", observed=io)


# ----------------------------------------------------------------------------- connections through web.start_client
IDENT_ROLES = {0: "w", 1: "r", 2: "rw"}          # identity -> roles; anonymous has neither


class NullLimiter:
    def is_limited(self, *a):
        return False

    def cleanup(self):
        pass


class Quiet:
    def __getattr__(self, n):
        return lambda *a, **k: None


async def drive_connection(st, attempts, probe_n):
    """attempts: list of functions challenge -> (json payload, now). Returns observation dict."""
    import falcon
    from nostr_relay import web
    frames, state = [], {"i": 0, "consumed": 0, "closed": None, "challenge": None, "req_at": None}
    script = []
    done = asyncio.Event()

    async def ws_send(text):
        frames.append(json.loads(text))
        if state["challenge"] is None and frames[-1][0] == "AUTH":
            state["challenge"] = frames[-1][1]

    async def ws_close(code=1000):
        state["closed"] = code

    def build():
        ch = state["challenge"]
        for f in attempts:
            payload, now = f(ch)
            script.append(("AUTH", now, json.dumps(["AUTH", payload])))
        ev = env.mk_event(3, 1, NOW, [], "probe-%d" % probe_n)
        script.append(("EVENT", NOW, json.dumps(["EVENT", ev])))
        script.append(("REQ", NOW, json.dumps(["REQ", "probe", {"ids": ["ab" * 32]}])))
        script.append(("CLOSE", NOW, json.dumps(["CLOSE", "probe"])))

    async def ws_recv():
        if not script:
            build()
        if state["req_at"] is not None:
            # the REQ's answer is asynchronous: wait for EOSE or the NOTICE before going on
            for _ in range(4000):
                if any(f[0] in ("EOSE", "NOTICE") for f in frames[state["req_at"]:]):
                    break
                await asyncio.sleep(0.001)
            state["req_at"] = None
        if state["i"] >= len(script):
            done.set()
            raise falcon.WebSocketDisconnected()
        kind, now, text = script[state["i"]]
        state["i"] += 1
        if kind == "AUTH":
            state["consumed"] += 1
        if kind == "REQ":
            state["req_at"] = len(frames)
        env.set_clock(now)
        return text
    await web.start_client(st, ws_send, ws_recv, ws_close, Quiet(), rate_limiter=NullLimiter(), remote_addr="1.2.3.4")
    n_auth = len(attempts)
    # frames: [AUTH challenge] then NOTICEs of refused attempts, then the probes' answers
    auth_frames, probes = [], {}
    for f in frames[1:]:
        if f[0] == "NOTICE" and "event" not in probes and "req" not in probes and not str(f[1]).startswith("restricted"):
            auth_frames.append(["NOTICE", classify(f[1])])
        elif f[0] == "OK":
            probes["event"] = bool(f[2])
        elif f[0] == "EOSE":
            probes["req"] = True
        elif f[0] == "NOTICE" and str(f[1]).startswith("restricted"):
            probes["req"] = False
    if state["closed"] is not None:
        auth_frames.append(["CLOSE", state["closed"]])
    return {"challenge": state["challenge"], "frames": auth_frames, "open": state["closed"] is None, "consumed": state["consumed"],
            "probes": probes, "first": frames[0] if frames else None, "raw": frames}


async def drive_raw(st, messages, clocks=None):
    """send the given frames in order through web.start_client; -> (frames the relay sent, close code or None)"""
    import falcon
    from nostr_relay import web
    frames, state = [], {"i": 0, "closed": None}

    async def ws_send(text):
        frames.append(json.loads(text))

    async def ws_close(code=1000):
        state["closed"] = code

    async def ws_recv():
        if state["i"] >= len(messages):
            raise falcon.WebSocketDisconnected()
        m = messages[state["i"]]
        if clocks:
            env.set_clock(clocks[state["i"]])
        state["i"] += 1
        return json.dumps(m)
    await web.start_client(st, ws_send, ws_recv, ws_close, Quiet(), rate_limiter=NullLimiter(), remote_addr="1.2.3.4")
    return frames, state["closed"]


PALETTE = ["validA", "validB", "validC", "badsig", "replayed", "stale", "old", "shorttag", "notdict", "wrongkind", "substring"]


def attempt(name, other_ch, urls_cfg):
    """-> function challenge -> (json payload, now), and model payload builder"""
    good = URL if urls_cfg is None else (urls_cfg if isinstance(urls_cfg, str) else urls_cfg[0])

    def f(ch):
        if name.startswith("valid"):
            return auth_event("ABC".index(name[-1]), challenge=ch, url=good), NOW
        if name == "badsig":
            return auth_event(0, challenge=ch, url=good, sign="other"), NOW
        if name == "replayed":      # a valid answer to another connection's challenge
            return auth_event(1, challenge=other_ch, url=good), NOW
        if name == "stale":         # answered correctly, delivered ten minutes late
            return auth_event(2, challenge=ch, url=good, created_at=NOW), NOW + 600
        if name == "old":
            return auth_event(0, challenge=ch, url=good, created_at=NOW - 601), NOW
        if name == "shorttag":
            return auth_event(1, challenge=ch, url=good, tags=[["relay", good], ["challenge", ch], ["relay"]]), NOW
        if name == "notdict":
            return ([1, 2], None), NOW
        if name == "wrongkind":
            return auth_event(2, challenge=ch, url=good, kind=22243), NOW
        if name == "substring":
            return auth_event(2, challenge=ch, url="ws"), NOW
        raise KeyError(name)
    return f


def run_connections(suite, seqs, urls_cfg, enabled=True):
    scratch = env.Scratch()
    other_holder = {}

    async def go():
        auth = {"enabled": enabled, "actions": {"save": "w", "query": "r"}}
        if urls_cfg is not None:
            auth["relay_urls"] = urls_cfg
        env.load_config(authentication=auth)
        env.patch_clock()
        env.patch_web_sleep()
        st = await env.sql_storage(scratch)
        try:
            for who, roles in IDENT_ROLES.items():
                await st.set_auth_roles(env.PUBS[who], roles)
            other_ch = st.authenticator.get_challenge("9.9.9.9")
            other_holder["ch"] = other_ch
            obs = []
            for n, seq in enumerate(seqs):
                recorded = []

                def rec(name):
                    g = attempt(name, other_ch, urls_cfg)

                    def h(ch):
                        (j, m), now = g(ch)
                        recorded.append([now, m])
                        return j, now
                    return h
                o = await drive_connection(st, [rec(nm) for nm in seq], n)
                o["msgs"] = recorded
                obs.append(o)
            return obs
        finally:
            await env.close(st)
    try:
        obs = env.run(go())
    finally:
        scratch.close()
    mcases = [{"enabled": enabled, "urls": urls_cfg, "challenge": o["challenge"] or "", "msgs": o["msgs"]} for o in obs]
    mouts = model_batch("c15.conn", mcases)
    ident = {(True, False): env.PUBS[0], (False, True): env.PUBS[1], (True, True): env.PUBS[2], (False, False): None}
    hcases = []
    for seq, o, mc in zip(seqs, obs, mcases):
        identity = ident.get((o["probes"].get("event"), o["probes"].get("req")), "unobserved") if o["open"] else "unobserved"
        o["identity"] = identity
        hcases.append(dict(mc, obs={"identity": identity if identity != "unobserved" else None, "consumed": o["consumed"]}))
    verdicts = model_batch("c15.conn_holds", hcases)
    for seq, o, mc, mo, vd in zip(seqs, obs, mcases, mouts, verdicts):
        cc = {"attempts": list(seq), "urls": urls_cfg, "enabled": enabled}
        suite.case(cc, nontrivial=len(seq) >= 1)
        suite.count("attempts_%d" % len(seq))
        suite.count("identity_" + ("none" if o["identity"] is None else "unobserved" if o["identity"] == "unobserved" else "some"))
        io = {"open": o["open"], "frames": o["frames"]}
        if enabled and (o["first"] is None or o["first"][0] != "AUTH" or len(str(o["first"][1])) != 32):
            suite.disagree(cc, "first frame [AUTH, <32 hex>]", o["first"])
        if io != {"open": mo["open"], "frames": mo["frames"]}:
            suite.disagree(cc, {"open": mo["open"], "frames": mo["frames"]}, io)
        if o["identity"] != "unobserved":
            if o["identity"] != mo["token"]:
                suite.disagree(cc, {"token": mo["token"]}, {"identity": o["identity"], "probes": o["probes"]})
            if vd != "ok":
                suite.violate(vd, {"kind": "connection", "case": cc}, "identity of the connection after the AUTH attempts: " + vd,
                              expected="identity of the last valid answer, unchanged by any other AUTH",
                              observed={"identity": o["identity"], "frames": o["frames"]})


def all_sequences(maxlen, palette=PALETTE):
    for n in range(0, maxlen + 1):
        for seq in itertools.product(palette, repeat=n):
            yield seq


def run_challenges(suite, n):
    from nostr_relay.auth import Authenticator
    a = Authenticator(RoleStore(), {"enabled": True})
    const = model_batch("c15.const", [None])[0]
    seen = set()
    bad = None
    for i in range(n):
        c = a.get_challenge("1.2.3.%d" % (i % 7))
        if not (isinstance(c, str) and len(c) == 2 * const["challenge_bytes"] and all(x in "0123456789abcdef" for x in c)):
            bad = c
        seen.add(c)
    suite.case({"draws": n}, nontrivial=True)
    suite.count("draws", n)
    suite.count("distinct", len(seen))
    if bad is not None or len(seen) != n:
        suite.disagree({"draws": n}, "%d distinct draws of %d hex digits" % (n, 2 * const["challenge_bytes"]), {"distinct": len(seen), "bad": bad})
    if not const["shape"]:
        suite.disagree({"const": "shape"}, True, const)


def run(tier, seed):
    env.load_config(authentication={"enabled": True})
    env.patch_clock()
    suites = []
    s0 = Suite("corr:auth-mutations")
    s0.rule = ("from a valid AUTH event: kind +-1 and others, signature of another key / zero / claimed pubkey, challenge of another "
               "connection / empty / prefix / superstring / upper case, created_at = now +- {599,600,601,...}, missing / duplicated / extra / "
               "short / empty / reordered tags, a bad relay or challenge tag before and after the good one, every proper substring and "
               "several superstrings of the relay URL, non-dict payloads and payloads the Event constructor refuses; for relay_urls "
               "configured as default / str / 1-list / 2-list; every case is a distinct mutation = non-trivial")
    rng = rng_for(seed, "c15")
    for who, cfg in [(0, None), (1, URL), (2, [URL]), (3, ["wss://relay.example", URL]), (0, "wss://r.example/")]:
        ch = "%032x" % rng.getrandbits(128)
        other = "%032x" % rng.getrandbits(128)
        run_mutations(s0, who, ch, other, cfg)
    suites.append(s0)

    s1 = Suite("corr:auth-connection")
    s1.rule = ("web.start_client with scripted ws_send/ws_recv/ws_close on a real SQL store, authentication enabled, three identities with "
               "roles w / r / rw, actions save=w query=r: every order of <= 3 AUTH attempts (quick: all of length <= 2 plus a sample of "
               "length 3) over a palette of 11 (three valid identities, bad signature, replay of another connection's answer, late "
               "delivery, too old, short tag -> IndexError, non-dict, wrong kind, substring URL), then a role-restricted EVENT and REQ; "
               "NOTICE classes, close code and the resulting identity compared with the model; non-trivial = at least one attempt")
    seqs = list(all_sequences(2))
    three = list(itertools.product(PALETTE, repeat=3))
    seqs += three if tier == "thorough" else rng.sample(three, 160)
    run_connections(s1, seqs, None)
    run_connections(s1, list(all_sequences(1)) + rng.sample(three, 30), [URL, "wss://relay.example"])
    run_connections(s1, [(), ("validA",), ("validC", "badsig")], None, enabled=False)
    suites.append(s1)

    s2 = Suite("corr:auth-challenge")
    s2.rule = "10^4 draws of Authenticator.get_challenge: 32 lower-case hex digits each (2 x the translated token_hex argument), all distinct"
    run_challenges(s2, 10000)
    suites.append(s2)
    from .. import extra
    suites.append(extra.suite_recipe_relay_urls(tier, seed))
    return suites


def replay(payload):
    import logging
    import os
    import sys
    logging.disable(logging.CRITICAL)
    v = payload["violation"]
    c = v["case"]
    env.load_config(authentication={"enabled": True})
    env.patch_clock()
    s = Suite("replay")
    if c["kind"] == "authenticate":
        k = c["case"]
        io = impl_authenticate(k["urls"], k["challenge"], k["payload"], k["now"])
        vd = model_batch("c15.holds", [{"now": k["now"], "urls": k["urls"], "challenge": k["challenge"], "payload": k["model_payload"], "obs": io}])[0]
        print("observed:", io, "verdict:", vd)
        if vd != "ok":
            s.violate(vd, c, vd)
    else:
        k = c["case"]
        run_connections(s, [tuple(k["attempts"])], k["urls"], k.get("enabled", True))
    for x in s.violations:
        print("still failing:", x["cls"], x["what"])
    print("replay:", "FAIL" if s.violations else "pass")
    sys.stdout.flush()
    os._exit(1 if s.violations else 0)
