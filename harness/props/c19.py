"""C19 - robustness of the connection handler against hostile input."""
from .. import relay

ASSUMPTIONS = ["robustness of rapidjson / falcon / uvicorn below web.start_client is out of scope",
               "the exponential throttle sleeps of web.py run on virtual time"]


def run(tier, seed):
    out = [relay.suite_validate(tier, seed, pid="C19"), relay.suite_hostile(tier, seed, "sql", pid="C19")]
    if tier == "thorough":
        out.append(relay.suite_hostile(tier, seed, "kv", pid="C19"))
    out.append(relay.suite_churn(tier, seed, "sql", pid="C19"))
    from .. import extra
    out.append(extra.suite_stalled_reader(tier, seed))
    out.append(extra.suite_kv_req_burst(tier, seed))
    out.append(extra.suite_failing_query_answered(tier, seed))
    out.append(extra.suite_idle_timeout(tier, seed))
    out.append(extra.suite_colliding_client_ids(tier, seed))
    out.append(extra.suite_publish_during_churn(tier, seed))
    out.append(extra.suite_peer_gone(tier, seed))
    out.append(extra.suite_abandoned_big_queries(tier, seed))
    out.append(relay.suite_relay(tier, seed, "sql", n=25 if tier == "quick" else 200, hostile=True, label="hostile-mix", pid="C19"))
    return out


def replay(payload):
    return relay.replay(payload, "C19")
