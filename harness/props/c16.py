"""C16 - admission policies: correspondence of every validator / pipeline / the
dynamic allow-deny lists with the model, "refused -> no trace" on both storage
backends, ListBuilder.run_once against real stores, and the refresh interleaved
with validations under a deterministic scheduler; the executable statements
(c16.holds, c16.refresh_holds) are evaluated on the implementation's observations."""
import asyncio
import itertools
import threading
import types

from .. import common, env
from ..common import Suite, model_batch, rng_for

ASSUMPTIONS = [
    "clock injected by replacing the module-level `time` of nostr_relay.validators (time.time itself trusted)",
    "events are typed as admission leaves them: str id/pubkey/content, int created_at/kind, tags = list of lists of str",
    "Event.verify() is an oracle (true for events the harness signed, false for a zero signature)",
    "thread pre-emption is represented by interleavings of atomic set operations (one method call on a set with a set/bytes "
    "argument is atomic under the GIL); the scheduler hands a baton to real threads at exactly those points",
    "no code point outside ASCII lower-cases into the hex alphabet (checked over all of Unicode in corr:lists)",
]

V = "nostr_relay.validators."
DOTTED = {n: V + n for n in ["is_not_too_large", "is_signed", "is_recent", "is_certain_kind", "is_author_whitelisted",
                             "is_author_blacklisted", "is_pow", "is_not_hellthread", "is_service_event"]}
DOTTED["is_pubkey_allowed"] = "nostr_relay.dynamic_lists.is_pubkey_allowed"
NAMES = list(DOTTED)
NOW = env.NOW
CFG0 = {"max_event_size": 4096, "oldest_event": 31536000, "valid_kinds": [1], "pubkey_whitelist": [], "pubkey_blacklist": [],
        "require_pow": 0, "hellthread_limit": 0, "service_pubkey": "", "subscription_limit": 32, "max_limit": 6000}


def cfg_with(**kw):
    c = dict(CFG0)
    c.update(kw)
    return c


def canon_exc(e):
    return None if e is None else type(e).__name__


def set_lists(allowed, denied):
    from nostr_relay import dynamic_lists as dl
    dl.ALLOWED_PUBKEYS.clear()
    dl.ALLOWED_PUBKEYS.update(allowed)
    dl.DENIED_PUBKEYS.clear()
    dl.DENIED_PUBKEYS.update(denied)


def impl_pipeline(case):
    """the real get_validator closure on the real Event, in the real executor"""
    from aionostr.event import Event
    from nostr_relay.validators import get_validator
    env.set_clock(case["now"])
    set_lists(case["allowed"], case["denied"])
    validate = get_validator([DOTTED[n] for n in case["vs"]])
    cfg = types.SimpleNamespace(**case["cfg"])
    ev = Event(**case["event"])

    async def go():
        try:
            await validate(ev, cfg)
        except Exception as e:  # noqa
            return e
        return None
    return canon_exc(env.run(go()))


# ----------------------------------------------------------------------------- generators
def synth_id(k, rng):
    """a 64-digit id with exactly k leading zero bits (k = 256: all zero)"""
    if k >= 256:
        return "0" * 64
    n = (1 << (255 - k)) | rng.getrandbits(255 - k) if k < 255 else 1
    return "%064x" % n


def ev(who=0, kind=1, created_at=NOW, tags=None, content="", sign=True, **over):
    e = env.mk_event(who, kind, created_at, tags or [], content, sign)
    e.update(over)
    return e


def case(vs, event, cfg=None, now=NOW, verify="true", allowed=(), denied=()):
    return {"vs": list(vs), "now": now, "cfg": cfg or cfg_with(), "verify": verify, "event": event,
            "allowed": sorted(allowed), "denied": sorted(denied)}


def boundary_cases(rng, tier):
    """each validator at, just inside and just outside each bound"""
    out = []
    # size: code points, not bytes
    for mx in (0, 1, 5, 280):
        for unit in ("a", "é", "\U0001f600"):
            for d in (-1, 0, 1):
                n = mx + d
                if n >= 0:
                    out.append(("size", case(["is_not_too_large"], ev(content=unit * n), cfg_with(max_event_size=mx))))
    # age and future skew
    for oldest in (0, 1, 600, 31536000):
        for d in (-2, -1, 0, 1, 2):
            out.append(("recent", case(["is_recent"], ev(created_at=NOW - oldest + d), cfg_with(oldest_event=oldest))))
    for d in (3598, 3599, 3600, 3601, 3602):
        out.append(("recent", case(["is_recent"], ev(created_at=NOW + d), cfg_with(oldest_event=100))))
    for now in (0, 1, 3600, 3601):
        for c in (1, 2, 3600, 3601, 7201):      # created_at = 0 is replaced by the wall clock in aionostr's Event()
            out.append(("recent", case(["is_recent"], ev(created_at=c), cfg_with(oldest_event=3600), now=now)))
    # kinds
    for valid in ([], [1], [0, 1, 7], [30000, 31494]):
        for k in (0, 1, 2, 7, 8, 29999, 30000, 30001, 31494):
            out.append(("kind", case(["is_certain_kind"], ev(kind=k), cfg_with(valid_kinds=valid))))
    # static lists: exact string comparison (upper case, prefix, other key)
    pk = env.PUBS[0]
    for lst in ([], [pk], [pk.upper()], [pk[:63]], [pk + "0"], [env.PUBS[1]], [env.PUBS[1], pk]):
        out.append(("white", case(["is_author_whitelisted"], ev(), cfg_with(pubkey_whitelist=lst))))
        out.append(("black", case(["is_author_blacklisted"], ev(), cfg_with(pubkey_blacklist=lst))))
    # proof of work: every number of leading zero bits against neighbouring requirements
    ks = range(0, 257) if tier == "thorough" else sorted(set(list(range(0, 20)) + [31, 32, 33, 63, 64, 65, 127, 128, 129, 200, 247, 248,
                                                                                   249, 250, 251, 252, 253, 254, 255, 256]))
    for k in ks:
        for req in sorted({k - 1, k, k + 1, 0, 256, 257, -1}):
            out.append(("pow", case(["is_pow"], ev(id=synth_id(k, rng)), cfg_with(require_pow=req), verify="false")))
    out.append(("pow", case(["is_pow"], ev(id="0" * 63 + "g"), cfg_with(require_pow=1))))
    out.append(("pow", case(["is_pow"], ev(id="00 " + "0" * 60 + "1f"), cfg_with(require_pow=250))))
    out.append(("pow", case(["is_pow"], ev(id=("%064x" % 255).upper()), cfg_with(require_pow=248))))
    out.append(("pow", case(["is_pow"], ev(id=("%064x" % 255).upper()), cfg_with(require_pow=249))))
    # hellthread
    other = [["e", "00" * 32], ["P", pk], ["pp", pk], ["t", "p"]]
    for lim in (0, 1, 2, 5):
        for kind in (1, 7, 0, 4, 6, 8):
            for n in sorted({max(lim - 1, 0), lim, lim + 1, lim + 2}):
                tags = [["p", env.PUBS[i % 4]] for i in range(n)] + other
                rng.shuffle(tags)
                out.append(("hell", case(["is_not_hellthread"], ev(kind=kind, tags=tags), cfg_with(hellthread_limit=lim))))
        out.append(("hell", case(["is_not_hellthread"], ev(kind=1, tags=[["p"]] * (lim + 1)), cfg_with(hellthread_limit=lim))))
        out.append(("hell", case(["is_not_hellthread"], ev(kind=1, tags=[["p", pk], []]), cfg_with(hellthread_limit=lim))))
        out.append(("hell", case(["is_not_hellthread"], ev(kind=2, tags=[[]]), cfg_with(hellthread_limit=lim))))
    # service events
    for kind in (31493, 31494, 31495, 1):
        for sp in (pk, env.PUBS[1], "", pk.upper()):
            out.append(("service", case(["is_service_event"], ev(kind=kind), cfg_with(service_pubkey=sp))))
    # dynamic lists
    b = [bytes.fromhex(p) for p in env.PUBS]
    for allowed in ([], [b[0]], [b[1]], [b[0], b[1]]):
        for denied in ([], [b[0]], [b[1]]):
            out.append(("dyn", case(["is_pubkey_allowed"], ev(), allowed=allowed, denied=denied)))
            out.append(("dyn", case(["is_pubkey_allowed"], ev(pubkey=pk.upper()), allowed=allowed, denied=denied)))
            out.append(("dyn", case(["is_pubkey_allowed"], ev(pubkey="zz" + pk[2:]), allowed=allowed, denied=denied)))
            out.append(("dyn", case(["is_pubkey_allowed"], ev(pubkey=pk[:32] + " " + pk[32:]), allowed=allowed, denied=denied)))
    return out


def gen_event(rng, genuine):
    """mostly-valid event near the bounds of a random configuration"""
    who = rng.randrange(4)
    kind = rng.choice([1, 1, 1, 7, 0, 4, 31494, 30000])
    created = NOW + rng.choice([0, 0, -1, -10, -99, -100, -101, 3599, 3600, 3601, -5000])
    ntag = rng.choice([0, 1, 2, 3, 4])
    tags = [["p", env.PUBS[rng.randrange(4)]] for _ in range(ntag)] + rng.choice([[], [["e", "11" * 32]], [["t", "x"]]])
    if kind >= 30000:
        tags.append(["d", "u%d" % rng.getrandbits(40)])     # own address each: replacement is not this property's subject
    content = rng.choice(["", "a", "abc", "abcd", "abcde", "éééé", "x" * 40])
    sign = rng.random() < 0.9
    e = ev(who, kind, created, tags, content, sign)
    if not genuine and rng.random() < 0.5:
        e["id"] = synth_id(rng.choice([0, 1, 7, 8, 9, 15, 16, 17]), rng)
    return e, ("true" if sign else "false")


def gen_cfg(rng):
    return cfg_with(max_event_size=rng.choice([3, 4, 5, 4096]), oldest_event=rng.choice([100, 31536000]),
                    valid_kinds=rng.choice([[1], [1, 7], [0, 1, 4, 7, 30000, 31494], [4]]),
                    pubkey_whitelist=rng.choice([[], env.PUBS[:2], env.PUBS[:3], env.PUBS]),
                    pubkey_blacklist=rng.choice([[], [env.PUBS[3]], [env.PUBS[0]]]),
                    require_pow=rng.choice([0, 0, 1, 8, 9, 16]), hellthread_limit=rng.choice([0, 1, 2, 3]),
                    service_pubkey=rng.choice([env.PUBS[0], env.PUBS[1]]))


def gen_pipeline(rng, allow_signed=True):
    names = [n for n in NAMES if allow_signed or n != "is_signed"]
    k = rng.choice([1, 2, 2, 3, 3, 4, 5, len(names)])
    return rng.sample(names, min(k, len(names)))


def gen_lists(rng):
    b = [bytes.fromhex(p) for p in env.PUBS]
    return rng.choice([[], [], b[:1], b[:2], b[:3], b]), rng.choice([[], [], [b[3]], [b[0]]])


def grind(who, kind, tags, bits, created_at=NOW):
    """a genuinely signed event whose real id has >= bits leading zero bits"""
    for nonce in range(1 << 22):
        eid = env.compute_id(env.PUBS[who], created_at, kind, tags, "n%d" % nonce)
        if int(eid, 16) >> (256 - bits) == 0:
            return env.mk_event(who, kind, created_at, tags, "n%d" % nonce)
    raise RuntimeError("grind failed")


# ----------------------------------------------------------------------------- pure suites
def run_pure(suite, labelled):
    cases = [c for _, c in labelled]
    impls = [impl_pipeline(c) for c in cases]
    mouts = model_batch("c16.pipeline", cases)
    verdicts = model_batch("c16.holds", [dict(c, obs=o) for c, o in zip(cases, impls)])
    for (label, c), io, mo, vd in zip(labelled, impls, mouts, verdicts):
        suite.case(c, nontrivial=True)
        suite.count(label)
        suite.count("refused" if io else "admitted")
        if io != mo:
            suite.disagree(c, mo, io)
        if vd != "ok":
            suite.violate(vd, {"kind": "pipeline", "case": c}, "validator pipeline decision contradicts the documented bound: " + vd,
                          expected="admitted iff every configured bound holds", observed=io)


# ----------------------------------------------------------------------------- storage admission
_KV_N = [0]


async def make_storage(backend, scratch, validators, **opts):
    if backend == "sql":
        return await env.sql_storage(scratch, validators=validators, **opts)
    _KV_N[0] += 1
    path = "c16-%d-%d" % (id(scratch), _KV_N[0])
    st = await env.kv_storage(scratch, validators=validators, path=path, **opts)
    st._shim_path = path
    return st


async def close_storage(st):
    await env.close(st)
    if getattr(st, "_shim_path", None):
        import lmdb
        lmdb.wipe(st._shim_path)


async def admit_on_storage(st, c):
    """real add_event; -> (outcome, left_trace, broadcast ids, stored?)"""
    from nostr_relay.config import Config
    for k, v in c["cfg"].items():
        if k == "service_pubkey":       # a read-only property derived from service_privatekey
            Config.service_privatekey = env.SECRETS[env.PUBS.index(v)] if v else ""
        else:
            setattr(Config, k, v)
    env.set_clock(c["now"])
    set_lists(c["allowed"], c["denied"])
    seen = []
    orig = st.notify_all_connected

    async def spy(event):
        seen.append(event.id)
        return await orig(event)
    st.notify_all_connected = spy
    before = await env.dump(st)
    exc = None
    try:
        await st.add_event(dict(c["event"]))
    except Exception as e:  # noqa
        exc = e
    after = await env.dump(st)
    st.notify_all_connected = orig
    ids = await env.stored_ids(st)
    return canon_exc(exc), before != after, seen, c["event"]["id"] in ids


def run_admission(suite, backend, groups):
    """groups: list of (pipeline names, [cases])"""
    scratch = env.Scratch()
    try:
        for vs, cases in groups:
            async def go(vs=vs, cases=cases):
                env.load_config(authentication={"enabled": False})
                env.patch_clock()
                st = await make_storage(backend, scratch, [DOTTED[n] for n in vs])
                try:
                    return [await admit_on_storage(st, c) for c in cases]
                finally:
                    await close_storage(st)
            obs = env.run(go())
            mouts = model_batch("c16.pipeline", cases)
            verdicts = model_batch("c16.holds", [dict(c, obs=o[0]) for c, o in zip(cases, obs)])
            for c, (io, trace, seen, stored), mo, vd in zip(cases, obs, mouts, verdicts):
                cc = dict(c, backend=backend)
                suite.case(cc, nontrivial=True)
                suite.count("refused" if io else "admitted")
                suite.count("pipeline_len_%d" % len(vs))
                if io != mo:
                    suite.disagree(cc, mo, io)
                if vd != "ok":
                    suite.violate(vd, {"kind": "admission", "backend": backend, "case": c},
                                  "add_event decision contradicts the documented bounds: " + vd, observed=io)
                if io is not None and (trace or seen):
                    suite.violate("refused-left-trace", {"kind": "admission", "backend": backend, "case": c},
                                  "a refused event changed the store or was broadcast", expected="no trace",
                                  observed={"store_changed": trace, "broadcast": seen})
                if io is None and not (20000 <= c["event"]["kind"] < 30000) and not (stored and seen == [c["event"]["id"]]):
                    # an admitted duplicate is not re-stored on SQL; cases never repeat an id within a group
                    suite.disagree(cc, "stored and broadcast once", {"stored": stored, "broadcast": seen})
    finally:
        scratch.close()


def admission_groups(rng, n_groups, per_group):
    groups = []
    fixed = [["is_not_too_large", "is_signed", "is_recent"], ["is_signed", "is_pow"], ["is_recent", "is_signed", "is_not_hellthread"],
             ["is_signed", "is_pubkey_allowed", "is_certain_kind"], ["is_service_event", "is_signed"],
             ["is_author_whitelisted", "is_author_blacklisted", "is_signed"], NAMES]
    for g in range(n_groups):
        vs = fixed[g] if g < len(fixed) else gen_pipeline(rng)
        cases, seen_ids = [], set()
        cfg = gen_cfg(rng)
        if "is_pow" in vs:
            cfg["require_pow"] = rng.choice([8, 9])
        allowed, denied = gen_lists(rng)
        for _ in range(per_group):
            if "is_pow" in vs and rng.random() < 0.6:
                bits = rng.choice([7, 8, 9, 10])
                e, ver = grind(rng.randrange(4), rng.choice([1, 7]), [["p", env.PUBS[0]]] * rng.choice([0, 1, 2]), bits), "true"
            else:
                e, ver = gen_event(rng, genuine=True)
            if e["id"] in seen_ids:
                continue
            seen_ids.add(e["id"])
            if rng.random() < 0.3:
                cfg = dict(cfg, **{k: v for k, v in gen_cfg(rng).items() if k != "require_pow"})
            cases.append(case(vs, e, cfg, NOW, ver, allowed, denied))
        groups.append((vs, cases))
    return groups


def run_admission_web(suite, backend, groups):
    """the same through web.start_client: one OK frame per EVENT; true with an empty reason iff admitted,
    false with a non-empty reason otherwise"""
    from . import c15
    from nostr_relay.config import Config
    scratch = env.Scratch()
    try:
        for vs, cases in groups:
            async def go(vs=vs, cases=cases):
                env.load_config(authentication={"enabled": False})
                env.patch_clock()
                env.patch_web_sleep()
                st = await make_storage(backend, scratch, [DOTTED[n] for n in vs])
                try:
                    out = []
                    for c in cases:
                        for k, v in c["cfg"].items():
                            if k == "service_pubkey":
                                Config.service_privatekey = env.SECRETS[env.PUBS.index(v)] if v else ""
                            else:
                                setattr(Config, k, v)
                        set_lists(c["allowed"], c["denied"])
                        frames, closed = await c15.drive_raw(st, [["EVENT", c["event"]]], [c["now"]])
                        out.append((frames, closed))
                    return out
                finally:
                    await close_storage(st)
            obs = env.run(go())
            mouts = model_batch("c16.pipeline", cases)
            for c, (frames, closed), mo in zip(cases, obs, mouts):
                cc = {"backend": backend, "vs": c["vs"], "event_id": c["event"]["id"]}
                suite.case(cc, nontrivial=True)
                oks = [f for f in frames if f and f[0] == "OK"]
                shape = (len(oks) == 1 and len(frames) == 1 and closed is None and len(oks[0]) == 4)
                admitted = bool(shape and oks[0][2] is True)
                suite.count("ok_true" if admitted else "ok_false")
                if not shape:
                    suite.disagree(cc, "exactly one OK frame", {"frames": frames, "closed": closed})
                    continue
                if admitted != (mo is None):
                    suite.disagree(cc, mo, oks[0])
                vd = model_batch("c16.holds", [dict(c, obs=None if admitted else "refused")])[0]
                if vd != "ok":
                    suite.violate(vd, {"kind": "admission-web", "backend": backend, "case": c}, "OK frame contradicts the documented bounds: " + vd,
                                  observed=oks[0])
                if admitted and (oks[0][1] != c["event"]["id"] or oks[0][3] != ""):
                    suite.disagree(cc, ["OK", c["event"]["id"], True, ""], oks[0])
                if not admitted and not (isinstance(oks[0][3], str) and oks[0][3]):
                    suite.violate("refused-without-reason", {"kind": "admission-web", "backend": backend, "case": c},
                                  "a refused EVENT was answered without a reason", observed=oks[0])
    finally:
        scratch.close()


# ----------------------------------------------------------------------------- ListBuilder.run_once on real stores
PTAG_SHAPES = None


def ptag_shapes():
    pk = [p for p in env.PUBS]
    return [
        ["p", pk[0]], ["p", pk[1].upper()], ["p", pk[2][:63]], ["p", pk[2] + "0"], ["p", "g" + pk[3][1:]], ["p", pk[0]],
        ["p"], ["p", pk[1], "wss://relay", "x"], ["P", pk[3]], ["pp", pk[3]], ["e", pk[3]], ["p", ""],
        ["p", pk[3][:31] + " " + pk[3][32:]], ["p", "İ" + pk[3][:62]], ["p", "０" * 64], ["p", pk[2][:32].upper() + pk[2][32:]],
        ["p", "0" * 64], ["p", "F" * 64], ["t", "p"], ["p", pk[3][:63] + "K"],
    ]


def lists_real_one(suite, backend, scratch, mc, service=""):
    """one ListBuilder.run_once against a real store holding the case's events"""
    from nostr_relay import dynamic_lists as dl
    from nostr_relay.config import Config
    allow_events, deny_events = mc["allow_events"], mc["deny_events"]
    initial_w = [p for p in mc["initial"] if p != service] if service else list(mc["initial"])

    async def go():
        env.load_config(authentication={"enabled": False})
        st = await make_storage(backend, scratch, [DOTTED["is_signed"]])
        try:
            for j, tags in enumerate(allow_events or []):
                await st.add_event(env.mk_event(j % 4, 1, NOW - j, tags, "a%d" % j))
            for j, tags in enumerate(deny_events or []):
                await st.add_event(env.mk_event(j % 4, 4, NOW - j, tags, "d%d" % j))
            await env.quiesce(st)
            Config.dynamic_lists = {"check_interval": 7200}
            if allow_events is not None:
                Config.dynamic_lists["allow_list_queries"] = [{"kinds": [1]}]
            if deny_events is not None:
                Config.dynamic_lists["deny_list_queries"] = [{"kinds": [4]}]
            Config.service_privatekey = env.SECRETS[env.PUBS.index(service)] if service else ""
            Config.pubkey_whitelist = list(initial_w)
            set_lists(mc["old_allow"], mc["old_deny"])
            saved = dl.get_storage
            dl.get_storage = lambda: st
            try:
                b = dl.ListBuilder()
                status = "done"
                try:
                    await b.run_once()
                except Exception as e:  # noqa
                    status = "raised"
            finally:
                dl.get_storage = saved
            return sorted(dl.ALLOWED_PUBKEYS), sorted(dl.DENIED_PUBKEYS), status
        finally:
            await close_storage(st)
    allow, deny, status = env.run(go())
    mo = model_batch("c16.refresh", [mc])[0]
    io = {"readers": [], "allow": allow, "deny": deny, "writer": status}
    cc = dict(mc, backend=backend, service=service)
    suite.case(cc, nontrivial=bool(allow or deny))
    suite.count("conf_" + ("both" if allow_events is not None and deny_events is not None else "allow" if allow_events is not None else "deny" if deny_events is not None else "none"))
    suite.count("allow_size_%d" % min(len(allow), 4))
    mcanon = {"readers": [], "allow": sorted(mo["allow"]), "deny": sorted(mo["deny"]), "writer": mo["writer"]}
    if mcanon != io:
        suite.disagree(cc, mcanon, io)
    vd = model_batch("c16.refresh_holds", [dict(mc, obs=io)])[0]
    if vd != "ok":
        suite.violate(vd, {"kind": "lists-real", "backend": backend, "case": mc, "service": service},
                      "lists after run_once differ from the p-tagged pubkeys of the query results plus static keys: " + vd,
                      observed=io)


def run_lists_real(suite, backend, rng, n):
    scratch = env.Scratch()
    shapes = ptag_shapes()
    try:
        for i in range(n):
            allow_events = [[rng.choice(shapes) for _ in range(rng.randint(0, 5))] for _ in range(rng.randint(0, 3))]
            deny_events = [[rng.choice(shapes) for _ in range(rng.randint(0, 3))] for _ in range(rng.randint(0, 2))]
            conf = rng.choice(["both", "both", "allow", "deny"])
            initial_w = rng.choice([[], [], [env.PUBS[3]], [env.PUBS[3], env.PUBS[0].upper()]])
            service = rng.choice(["", env.PUBS[2]])
            old_allow = rng.choice([[], [bytes.fromhex(env.PUBS[1])], [b"\x01" * 32]])
            old_deny = rng.choice([[], [b"\x02" * 32]])
            mc = {"old_allow": old_allow, "old_deny": old_deny,
                  "allow_events": allow_events if conf in ("both", "allow") else None,
                  "deny_events": deny_events if conf in ("both", "deny") else None,
                  "initial": ([service] if service else []) + list(initial_w), "readers": [], "sched": []}
            lists_real_one(suite, backend, scratch, mc, service)
    finally:
        scratch.close()
        set_lists([], [])


def check_unicode_lower(suite):
    import sys
    hexs = set("abcdef0123456789")
    bad = [c for c in range(128, sys.maxunicode + 1) if set(chr(c).lower()) & hexs]
    suite.case({"unicode_lower": "all code points >= 128"}, nontrivial=False)
    if bad:
        suite.disagree({"unicode_lower": bad[:5]}, "no non-ASCII code point lower-cases into the hex alphabet", bad[:5])
    # collection rule, tag by tag, against the translated definition
    from nostr_relay import dynamic_lists  # noqa


# ----------------------------------------------------------------------------- refresh under a deterministic scheduler
class Ctl:
    """hands a baton to real threads at the atomic set operations, in schedule order;
    after the schedule: lowest-numbered unfinished thread first (writer, then readers)"""

    def __init__(self, schedule, nthreads):
        self.schedule = list(schedule)
        self.n = nthreads
        self.done = set()
        self.busy = False
        self.cv = threading.Condition()
        self.tids = {}

    def _next(self):
        while self.schedule and (self.schedule[0] in self.done or self.schedule[0] >= self.n):
            self.schedule.pop(0)
        if self.schedule:
            return self.schedule[0], True
        for t in range(self.n):
            if t not in self.done:
                return t, False
        return None, False

    def acquire(self):
        tid = self.tids.get(threading.get_ident())
        if tid is None:
            return None
        with self.cv:
            while True:
                nxt, from_sched = self._next()
                if not self.busy and nxt == tid:
                    if from_sched:
                        self.schedule.pop(0)
                    self.busy = True
                    return tid
                if not self.cv.wait(timeout=20):
                    raise RuntimeError("scheduler wedged (thread %s, next %s)" % (tid, nxt))

    def release(self, tid):
        if tid is None:
            return
        with self.cv:
            self.busy = False
            self.cv.notify_all()

    def finish(self, tid):
        with self.cv:
            self.done.add(tid)
            self.cv.notify_all()


class SchedSet(set):
    """a set whose operations used by dynamic_lists are scheduling points"""
    ctl = None

    def _atomic(self, f, *a):
        c = self.ctl
        t = c.acquire() if c else None
        try:
            return f(self, *a)
        finally:
            if c:
                c.release(t)

    def clear(self):
        return self._atomic(set.clear)

    def intersection_update(self, other):
        if not isinstance(other, (set, frozenset)):
            other = set(other)
        return self._atomic(set.intersection_update, other)

    def update(self, other=()):
        if isinstance(other, (set, frozenset)):
            return self._atomic(set.update, other)
        for x in other:                      # a generator: one atomic add per element
            self._atomic(set.add, x)

    def add(self, x):
        return self._atomic(set.add, x)

    def __bool__(self):
        return self._atomic(lambda s: set.__len__(s) > 0)

    def __contains__(self, x):
        return self._atomic(set.__contains__, x)


class FakeStore:
    def __init__(self, allow_events, deny_events):
        self.by_kind = {1: allow_events, 4: deny_events}

    async def run_single_query(self, queries):
        from aionostr.event import Event
        for tags in self.by_kind[queries[0]["kinds"][0]] or []:
            yield Event(pubkey=env.PUBS[0], content="", created_at=NOW, kind=queries[0]["kinds"][0], tags=tags)


def impl_refresh(c):
    from aionostr.event import Event
    from nostr_relay import dynamic_lists as dl
    from nostr_relay.config import Config
    saved = (dl.ALLOWED_PUBKEYS, dl.DENIED_PUBKEYS, dl.get_storage)
    A, D = SchedSet(c["old_allow"]), SchedSet(c["old_deny"])
    dl.ALLOWED_PUBKEYS, dl.DENIED_PUBKEYS = A, D
    dl.get_storage = lambda: FakeStore(c["allow_events"], c["deny_events"])
    try:
        Config.dynamic_lists = {"check_interval": 7200}
        if c["allow_events"] is not None:
            Config.dynamic_lists["allow_list_queries"] = [{"kinds": [1]}]
        if c["deny_events"] is not None:
            Config.dynamic_lists["deny_list_queries"] = [{"kinds": [4]}]
        Config.service_privatekey = ""
        Config.pubkey_whitelist = list(c["initial"])
        builder = dl.ListBuilder()
        nthreads = 1 + len(c["readers"])
        ctl = Ctl(c["sched"], nthreads)
        results = [None] * nthreads

        def writer():
            ctl.tids[threading.get_ident()] = 0
            try:
                loop = asyncio.new_event_loop()
                try:
                    loop.run_until_complete(builder.run_once())
                    results[0] = "done"
                finally:
                    loop.close()
            except Exception:
                results[0] = "raised"
            finally:
                ctl.finish(0)

        def reader(i, pk):
            ctl.tids[threading.get_ident()] = i
            try:
                e = Event(pubkey=pk, content="", created_at=NOW, kind=1, tags=[], id="00" * 32, sig="00" * 64)
                try:
                    dl.is_pubkey_allowed(e, Config)
                    results[i] = None
                except Exception as ex:  # noqa
                    results[i] = type(ex).__name__
            finally:
                ctl.finish(i)
        SchedSet.ctl = ctl
        ths = [threading.Thread(target=writer)] + [threading.Thread(target=reader, args=(i + 1, pk)) for i, pk in enumerate(c["readers"])]
        for t in ths:
            t.start()
        for t in ths:
            t.join(60)
        SchedSet.ctl = None
        return {"readers": results[1:], "allow": sorted(set.copy(A)), "deny": sorted(set.copy(D)), "writer": results[0]}
    finally:
        SchedSet.ctl = None
        dl.ALLOWED_PUBKEYS, dl.DENIED_PUBKEYS, dl.get_storage = saved


def interleavings(nw, nr):
    """all schedules with nw writer slots (0) and nr reader-1 slots"""
    for pos in itertools.combinations(range(nw + nr), nr):
        s = [0] * (nw + nr)
        for p in pos:
            s[p] = 1
        yield s


def refresh_cases(rng, tier):
    pk = env.PUBS
    b = [bytes.fromhex(p) for p in pk]
    out = []
    # enforced allow list replaced by another non-empty list; reader = outsider / old member / new member / both
    base = {"old_allow": [b[0], b[1]], "old_deny": [], "allow_events": [[["p", pk[1]], ["p", pk[2]]]], "deny_events": None, "initial": []}
    for reader in (pk[3], pk[0], pk[2], pk[1]):
        for s in interleavings(4, 4):
            out.append(dict(base, readers=[reader], sched=s))
    # deny list refresh: a key denied before and after
    base = {"old_allow": [], "old_deny": [b[0]], "allow_events": None, "deny_events": [[["p", pk[0]], ["p", pk[1]]]], "initial": []}
    for reader in (pk[0], pk[1], pk[2]):
        for s in interleavings(4, 4):
            out.append(dict(base, readers=[reader], sched=s))
    # both lists + static keys
    base = {"old_allow": [b[0], b[3]], "old_deny": [b[2]], "allow_events": [[["p", pk[0]]], [["p", pk[2].upper()], ["p", "zz"]]],
            "deny_events": [[["p", pk[2]]]], "initial": [pk[3]]}
    scheds = list(interleavings(7, 4))
    if tier == "quick":
        scheds = rng.sample(scheds, 60)
    for reader in (pk[1], pk[0], pk[2], pk[3]):
        for s in scheds:
            out.append(dict(base, readers=[reader], sched=s))
    # random: two readers, random configuration
    n = 150 if tier == "quick" else 3000
    for _ in range(n):
        old_allow = rng.choice([[], [b[0]], [b[0], b[1]], [b[3]]])
        old_deny = rng.choice([[], [], [b[2]], [b[0]]])
        def evs():
            return [[["p", rng.choice(pk + [pk[0].upper(), "zz", pk[1][:63]])] for _ in range(rng.randint(0, 2))] for _ in range(rng.randint(0, 2))]
        ae = rng.choice([None, evs(), evs()])
        de = rng.choice([None, None, evs()])
        initial = rng.choice([[], [], [pk[3]], [pk[3], pk[2]], [pk[3], "nothex"]])
        readers = [rng.choice(pk + ["zz" * 32]) for _ in range(rng.choice([1, 2, 2]))]
        sched = [rng.randrange(len(readers) + 1) for _ in range(rng.randint(0, 14))]
        out.append({"old_allow": old_allow, "old_deny": old_deny, "allow_events": ae, "deny_events": de, "initial": initial,
                    "readers": readers, "sched": sched})
    return out


def run_refresh(suite, cases):
    env.load_config(authentication={"enabled": False})
    impls = [impl_refresh(c) for c in cases]
    mouts = model_batch("c16.refresh", cases)
    verdicts = model_batch("c16.refresh_holds", [dict(c, obs=o) for c, o in zip(cases, impls)])
    for c, io, mo, vd in zip(cases, impls, mouts, verdicts):
        mo = {"readers": mo["readers"], "allow": sorted(mo["allow"]), "deny": sorted(mo["deny"]), "writer": mo["writer"]}
        mixed = 0 in c["sched"] and any(x > 0 for x in c["sched"])
        suite.case(c, nontrivial=mixed)
        suite.count("readers_%d" % len(c["readers"]))
        suite.count("sched_len_%d" % min(len(c["sched"]), 12))
        for r in io["readers"]:
            suite.count("reader_" + ("admitted" if r is None else "refused"))
        if io != mo:
            suite.disagree(c, mo, io)
        if vd != "ok":
            suite.violate(vd, {"kind": "refresh", "case": c},
                          "a validation running concurrently with a list refresh decided against both the old and the new list: " + vd,
                          expected="refused iff outside old, new and static keys (enforced list); denied keys stay refused", observed=io)


# ----------------------------------------------------------------------------- entry points
def run(tier, seed):
    env.load_config(authentication={"enabled": False})
    env.patch_clock()
    suites = []

    s0 = Suite("corr:validators")
    s0.rule = ("every validator alone at, just inside and just outside each bound (content length in code points, age and future skew, "
               "kinds, exact-string static lists, synthetic ids with k leading zero bits x requirements k-1,k,k+1,0,256,257,-1, p-tag "
               "counts around the limit for kinds in and out of {1,7}, service kind neighbours, dynamic lists) through the real "
               "get_validator closure in the real executor under the injected clock; every case is a boundary case = non-trivial")
    rng = rng_for(seed, "c16.bounds")
    run_pure(s0, boundary_cases(rng, tier))
    suites.append(s0)

    s1 = Suite("corr:pipelines")
    s1.rule = ("random pipelines (subsets and orders of the 10 shipped validators incl. is_pubkey_allowed) x random configurations x "
               "mostly-valid events near the bounds, synthetic ids for is_pow; decision (admitted / exception class) compared with the "
               "model and judged by the executable statement")
    rng = rng_for(seed, "c16.pipes")
    lab = []
    for _ in range(1500 if tier == "quick" else 20000):
        vs = gen_pipeline(rng)
        e, ver = gen_event(rng, genuine=("is_signed" in vs))
        a, d = gen_lists(rng)
        lab.append(("pipe_len_%d" % len(vs), case(vs, e, gen_cfg(rng), NOW, ver, a, d)))
    run_pure(s1, lab)
    suites.append(s1)

    for backend in ("sql", "kv"):
        s = Suite("corr:admission-" + backend)
        s.rule = ("real add_event on a real %s store behind the real get_validator pipeline (7 fixed + random pipelines): decision "
                  "compared with the model; refused -> full store dump unchanged and nothing broadcast; admitted -> stored and "
                  "broadcast once" % backend)
        rng = rng_for(seed, "c16.adm." + backend)
        run_admission(s, backend, admission_groups(rng, 9 if tier == "quick" else 40, 14 if tier == "quick" else 40))
        suites.append(s)

    sw = Suite("corr:admission-web")
    sw.rule = ("EVENT frames through web.start_client (scripted websocket, virtual throttle sleeps) on both backends behind fixed and random "
               "pipelines: exactly one OK frame per EVENT, true with the id and an empty reason iff the model admits, false with a "
               "non-empty reason otherwise")
    rng = rng_for(seed, "c16.web")
    for backend in ("sql", "kv"):
        run_admission_web(sw, backend, admission_groups(rng, 4 if tier == "quick" else 12, 10 if tier == "quick" else 30))
    suites.append(sw)

    s3 = Suite("corr:lists")
    s3.rule = ("ListBuilder.run_once against real SQL and LMDB stores holding events whose p tags have every shape (upper case, 63/65 "
               "digits, non-hex, embedded blank, non-ASCII that lower-cases longer, full-width digits, duplicates, bare and long tags, "
               "other names) with allow/deny/both configured, static keys and service key; resulting sets compared with the model; "
               "non-trivial = some key collected")
    rng = rng_for(seed, "c16.lists")
    check_unicode_lower(s3)
    for backend in ("sql", "kv"):
        run_lists_real(s3, backend, rng, 25 if tier == "quick" else 250)
    suites.append(s3)

    s4 = Suite("corr:refresh-interleavings")
    s4.rule = ("ListBuilder.run_once (real code, real threads) interleaved with is_pubkey_allowed calls under a scheduler that hands a "
               "baton at every atomic set operation; all interleavings of one reader with the refresh for three configurations, random "
               "schedules with two readers; reader outcomes and final sets compared with the model, judged by c16.refresh_holds; "
               "non-trivial = schedule interleaves writer and reader steps")
    rng = rng_for(seed, "c16.refresh")
    run_refresh(s4, refresh_cases(rng, tier))
    suites.append(s4)
    from .. import extra
    from .. import extra as _extra
    _more = [_extra.suite_second_instance_policies(tier, seed)]
    return list(list(suites) + [extra.suite_policy_reapplied(tier, seed), extra.suite_recipe_validator(tier, seed), extra.suite_config_reload(tier, seed), extra.suite_policy_relaxed(tier, seed), extra.suite_unloadable_validator(tier, seed)]) + _more

def replay(payload):
    import logging
    import os
    import sys
    logging.disable(logging.CRITICAL)
    rc = _replay(payload)
    sys.stdout.flush()
    os._exit(rc)


def _replay(payload):
    v = payload["violation"]
    c = v["case"]
    env.load_config(authentication={"enabled": False})
    env.patch_clock()
    s = Suite("replay")
    kind = c.get("kind")
    if kind == "pipeline":
        run_pure(s, [("replay", c["case"])])
    elif kind == "admission":
        run_admission(s, c["backend"], [(c["case"]["vs"], [c["case"]])])
    elif kind == "admission-web":
        run_admission_web(s, c["backend"], [(c["case"]["vs"], [c["case"]])])
    elif kind == "refresh":
        run_refresh(s, [c["case"]])
    elif kind == "lists-real":
        scratch = env.Scratch()
        try:
            lists_real_one(s, c["backend"], scratch, c["case"], c.get("service", ""))
        finally:
            scratch.close()
            set_lists([], [])
    for x in s.violations:
        print("still failing:", x["cls"], x["what"], x["observed"])
    print("replay:", "FAIL" if s.violations else "pass")
    return 1 if s.violations else 0
