"""SQLM - the SQL-backend model's own check (not registered in the manifest): proves all theorems of
coq/Props/SQLM.v and runs every suite of harness/sqlm.py.  `./check SQLM`."""
import glob
import os
import re

from .. import common, sqlm

ASSUMPTIONS = sqlm.ASSUMPTIONS

# findings of this model are recorded under the real property ids (C09, C01, ...) in findings.d/SQLM.txt;
# for this combined check every class listed there counts as known
_real_load = common.load_findings


def _load(pid):
    if pid != "SQLM":
        return _real_load(pid)
    opens, fixed = [], []
    fn = os.path.join(common.VERIF, "findings.d", "SQLM.txt")
    if os.path.exists(fn):
        for line in open(fn):
            line = line.strip()
            m = re.match(r"open:\s+property=(\S+)\s+class=(\S+)\s+witness=(\S+)\s+(.*)", line)
            if m:
                opens.append({"cls": m.group(2), "witness": m.group(3), "text": "[%s] %s" % (m.group(1), m.group(4))})
            m = re.match(r"fixed:\s+property=(\S+)\s+(\S+)\s+(.*)", line)
            if m:
                fixed.append({"commit": m.group(2), "text": m.group(3)})
    return opens, fixed


common.load_findings = _load


def run(tier, seed):
    suites = []
    for name in ("c09", "c08", "c17", "c07", "c06", "c01", "c12", "c02", "c11"):
        suites += getattr(sqlm, "suites_" + name)(tier, seed)
    return suites


def replay(payload):
    return sqlm.replay(payload)
