"""C12 - a limit returns the newest matching events, never more than allowed.  SQL half: harness/sqlm.py, LMDB half: harness/kvm.py (see design.d)."""
from .. import common
from .. import sqlm
from .. import kvm as kvb

ASSUMPTIONS = [
    "SQLite's evaluation of a parsed statement and its atomic commit are trusted (modelled, pinned by correspondence)",
    "py-lmdb behaves like shims/lmdb.py (ordered map, tracked cursors, copy-on-commit write transactions, 511-byte keys)",
    "admitted events are well formed (C03): string/integer tag items, lower-case hex ids",
]


def run(tier, seed):
    common.PID_ALIAS.update({"SQLM": "C12", "KVM": "C12"})
    from .. import extra, relay
    return common.drop_foreign(sqlm.suites_c12(tier, seed) + kvb.suites_c12(tier, seed) + [extra.suite_cap_plain_subscribe(tier, seed), extra.suite_config_defaults(tier, seed, ("max_limit",)), extra.suite_simultaneous_reqs(tier, seed), relay.suite_validate(tier, seed, pid="C12", entry="filt.validate")], "C12")


def replay(payload):
    common.PID_ALIAS.update({"SQLM": "C12", "KVM": "C12"})
    v = payload.get("violation") or {}
    suite = str(v.get("suite", ""))
    if "sql" in suite:
        return sqlm.replay(payload)
    try:
        return kvb.replay(payload, "C12")
    except TypeError:
        return kvb.replay(payload)
