"""C03 - only authentic events are stored, acknowledged or forwarded.

corr:admit     every single-field corruption of valid events (pairs in thorough) submitted as ["EVENT", ...] through
               web.start_client on both backends: OK flag, stored (full dump), broadcast (a live subscriber) compared with the
               model's admission decision; the executable statement c03.holds (authentic, with oracle answers computed by
               hashlib + env.nip01_serialize + the pure-Python BIP-340 verifier below) judges every observed effect
corr:paths     BaseStorage.add_service_event and the cli bulk loader against the same model (they factor through add_event)
corr:fromhex   model of bytes.fromhex (upper case, embedded ASCII whitespace, odd lengths) against CPython
self:bip340    the BIP-340 verifier below against coincurve (valid, corrupted, malformed inputs)
finding:...    the witness of the open finding (serialization of 9 control characters)
"""
import asyncio
import functools
import hashlib
import json
import logging
import os

from .. import common, env
from ..common import Suite, model_batch, rng_for, PyFloat

ASSUMPTIONS = [
    "SHA-256, BIP-340 and the canonical serialization are oracles of the theorems; the correspondence instantiates them with hashlib, "
    "harness.env.nip01_serialize (json.dumps, separators=(',',':'), ensure_ascii=False) and the pure-Python BIP-340 verifier of this file",
    "is_signed is in the configured validator list (the default; a configuration may omit it: the theorem is stated under this hypothesis)",
    "int(str) is modelled for ASCII decimal strings only (no underscores / non-ASCII digits in generated kinds)",
    "cryptographic soundness of SHA-256 / BIP-340 / coincurve is outside the model",
]
LOG = logging.getLogger("verif.c03")


# ----------------------------------------------------------------------------- BIP-340 (from the BIP text)
P = 0xFFFFFFFFFFFFFFFFFFFFFFFFFFFFFFFFFFFFFFFFFFFFFFFFFFFFFFFEFFFFFC2F
N = 0xFFFFFFFFFFFFFFFFFFFFFFFFFFFFFFFEBAAEDCE6AF48A03BBFD25E8CD0364141
G = (0x79BE667EF9DCBBAC55A06295CE870B07029BFCDB2DCE28D959F2815B16F81798,
     0x483ADA7726A3C4655DA4FBFC0E1108A8FD17B448A68554199C47D08FFB10D4B8)


def _tagged_hash(tag, msg):
    th = hashlib.sha256(tag.encode()).digest()
    return hashlib.sha256(th + th + msg).digest()


def _lift_x(x):
    if x >= P:
        return None
    y_sq = (pow(x, 3, P) + 7) % P
    y = pow(y_sq, (P + 1) // 4, P)
    if pow(y, 2, P) != y_sq:
        return None
    return (x, y if y & 1 == 0 else P - y)


def _add(a, b):
    """affine addition as in the BIP's reference code (used for the final sum only)"""
    if a is None:
        return b
    if b is None:
        return a
    if a[0] == b[0] and a[1] != b[1]:
        return None
    if a == b:
        lam = (3 * a[0] * a[0] * pow(2 * a[1], -1, P)) % P
    else:
        lam = ((b[1] - a[1]) * pow(b[0] - a[0], -1, P)) % P
    x3 = (lam * lam - a[0] - b[0]) % P
    return (x3, (lam * (a[0] - x3) - a[1]) % P)


def _jdbl(p):
    X, Y, Z = p
    if Y == 0:
        return (0, 1, 0)
    A = X * X % P
    B = Y * Y % P
    C = B * B % P
    D = 2 * ((X + B) * (X + B) - A - C) % P
    E = 3 * A % P
    X3 = (E * E - 2 * D) % P
    return (X3, (E * (D - X3) - 8 * C) % P, 2 * Y * Z % P)


def _jadd(p, q):
    """Jacobian p + affine q (an optimisation of the BIP's affine double-and-add; cross-checked against coincurve)"""
    X1, Y1, Z1 = p
    if Z1 == 0:
        return (q[0], q[1], 1)
    Z1Z1 = Z1 * Z1 % P
    U2 = q[0] * Z1Z1 % P
    S2 = q[1] * Z1 * Z1Z1 % P
    H = (U2 - X1) % P
    r = (S2 - Y1) % P
    if H == 0:
        return _jdbl(p) if r == 0 else (0, 1, 0)
    HH = H * H % P
    HHH = H * HH % P
    V = X1 * HH % P
    X3 = (r * r - HHH - 2 * V) % P
    return (X3, (r * (V - X3) - Y1 * HHH) % P, Z1 * H % P)


def _mul(pt, k):
    if pt is None or k % N == 0:
        return None
    acc = (0, 1, 0)
    for i in range(k.bit_length() - 1, -1, -1):
        acc = _jdbl(acc)
        if (k >> i) & 1:
            acc = _jadd(acc, pt)
    if acc[2] == 0:
        return None
    zi = pow(acc[2], -1, P)
    return (acc[0] * zi * zi % P, acc[1] * zi * zi * zi % P)


@functools.lru_cache(maxsize=20000)
def bip340_verify(pubkey, msg, sig):
    if len(pubkey) != 32 or len(msg) != 32 or len(sig) != 64:
        return False
    pt = _lift_x(int.from_bytes(pubkey, "big"))
    r = int.from_bytes(sig[:32], "big")
    s = int.from_bytes(sig[32:], "big")
    if pt is None or r >= P or s >= N:
        return False
    e = int.from_bytes(_tagged_hash("BIP0340/challenge", sig[:32] + pubkey + msg), "big") % N
    R = _add(_mul(G, s), _mul(pt, N - e))
    if R is None or R[1] & 1 or R[0] != r:
        return False
    return True


def suite_bip340(tier, rng):
    import coincurve
    s = Suite("self:bip340")
    s.rule = ("the pure-Python BIP-340 verifier against coincurve.PublicKeyXOnly.verify on valid signatures and on single-bit corruptions of "
              "key, message, signature, plus malformed lengths and x-coordinates not on the curve; non-trivial = corrupted input")
    n = 12 if tier == "quick" else 60
    for i in range(n):
        sk = env.PRIVS[i % 4]
        pk = bytes.fromhex(env.PUBS[i % 4])
        msg = hashlib.sha256(b"m%d" % i).digest()
        sig = sk.sign_schnorr(msg, None)
        variants = [(pk, msg, sig)]
        for which in range(3):
            t = [bytearray(pk), bytearray(msg), bytearray(sig)]
            pos = rng.randrange(len(t[which]))
            t[which][pos] ^= 1 << rng.randrange(8)
            variants.append(tuple(bytes(x) for x in t))
        variants.append((pk, msg, sig[:32] + (N).to_bytes(32, "big")))
        variants.append((pk, msg, (P).to_bytes(32, "big") + sig[32:]))
        variants.append(((5).to_bytes(32, "big"), msg, sig))       # x = 5 is not on the curve
        for k, (a, b, c) in enumerate(variants):
            mine = bip340_verify(a, b, c)
            try:
                theirs = bool(coincurve.PublicKeyXOnly(a).verify(c, b))
            except Exception:
                theirs = False
            s.case({"i": i, "variant": k}, nontrivial=k > 0)
            s.count("valid" if theirs else "invalid")
            if mine != theirs:
                s.disagree({"pk": a, "msg": b, "sig": c}, mine, theirs)
    for a, b, c in ((b"", b"", b""), (b"\x01" * 31, b"\x02" * 32, b"\x03" * 64), (b"\x01" * 32, b"\x02" * 32, b"\x03" * 63)):
        s.case({"malformed": [len(a), len(b), len(c)]})
        if bip340_verify(a, b, c):
            s.disagree({"pk": a, "msg": b, "sig": c}, True, False)
    return s


# ----------------------------------------------------------------------------- oracle tables
def _unfloat(v):
    if isinstance(v, PyFloat):
        return float(v.r)
    if isinstance(v, list):
        return [_unfloat(x) for x in v]
    if isinstance(v, dict):
        return {k: _unfloat(x) for k, x in v.items()}
    return v


def _fromhex(x):
    if not isinstance(x, str):
        return None
    try:
        return bytes.fromhex(x)
    except ValueError:
        return None


def oracle_tables(payloads, now):
    """-> list of dicts {ser, sha, schnorr, utf8, floats} answering every oracle query the model will make for each payload"""
    floats = []
    for pl in payloads:
        fl = []
        if isinstance(pl, dict) and isinstance(pl.get("kind"), float):
            k = pl["kind"]
            try:
                fl.append([k, int(k)])
            except (OverflowError, ValueError):
                fl.append([k, None])
        floats.append(fl)
    qs = model_batch("c03.queries", [{"now": now, "json": pl, "floats": fl} for pl, fl in zip(payloads, floats)])
    out = []
    for pl, fl, q in zip(payloads, floats, qs):
        t = {"ser": [], "sha": [], "schnorr": [], "utf8": [], "floats": fl}
        if q["ser_args"] is not None:
            args = q["ser_args"]
            try:
                ser = env.nip01_serialize(*[_unfloat(a) for a in args])
            except Exception:
                ser = None
            t["ser"].append(list(args) + [ser])
            if ser is not None:
                digest = hashlib.sha256(ser).digest()
                t["sha"].append([ser, digest])
                pk, sg = _fromhex(pl.get("pubkey")), _fromhex(pl.get("sig"))
                if pk is not None and sg is not None:
                    t["schnorr"].append([pk, digest, sg, bip340_verify(pk, digest, sg)])
            tags = pl.get("tags") if isinstance(pl, dict) else None
            toks = list(q["tokens"])
            if toks and isinstance(tags, list):
                dtags = [tg for tg in tags if isinstance(tg, list) and len(tg) == 4 and tg[0] == "delegation" and all(isinstance(x, str) for x in tg)]
                for tok, tg in zip(toks, dtags):
                    try:
                        tb = tok.encode("utf8")
                    except UnicodeEncodeError:
                        tb = None
                    t["utf8"].append([tok, tb])
                    if tb is not None:
                        d2 = hashlib.sha256(tb).digest()
                        t["sha"].append([tb, d2])
                        dk, dsg = _fromhex(tg[1]), _fromhex(tg[3])
                        if dk is not None and dsg is not None:
                            t["schnorr"].append([dk, d2, dsg, bip340_verify(dk, d2, dsg)])
        out.append(t)
    return out


# ----------------------------------------------------------------------------- events and corruptions
def delegation_tag(delegator, delegatee_pub, conditions="kind=1"):
    tok = ("nostr:delegation:%s:%s" % (delegatee_pub, conditions)).encode()
    sig = env.PRIVS[delegator].sign_schnorr(hashlib.sha256(tok).digest(), None).hex()
    return ["delegation", env.PUBS[delegator], conditions, sig]


_nonce = [0]


def base_event(rng, flavour):
    _nonce[0] += 1
    who = rng.randrange(4)
    tags = []
    content = "c03 base %d %s" % (_nonce[0], rng.choice(["", "é", "\U0001F600", 'q"uote\\', "line\nbreak\ttab", "\x00\x01\x7f"]))
    if flavour == "tags":
        tags = [["e", "00" * 32], ["p", env.PUBS[(who + 1) % 4], "wss://x"], ["t", "é\"\\"]]
    elif flavour == "delegation":
        tags = [delegation_tag((who + 1) % 4, env.PUBS[who]), ["t", "x"]]
    elif flavour == "two-delegations":
        tags = [delegation_tag((who + 1) % 4, env.PUBS[who]), delegation_tag((who + 2) % 4, env.PUBS[who], "kind=1&created_at<9999999999")]
    return env.mk_event(who, 1, env.NOW - rng.randrange(0, 1000), tags, content), who


FLAVOURS = ["plain", "tags", "delegation", "plain", "two-delegations", "tags"]


def flip_hex(rng, h):
    i = rng.randrange(len(h))
    c = h[i]
    return h[:i] + ("0" if c != "0" else "1") + h[i + 1:]


def spaced(h):
    return " ".join(h[i:i + 2] for i in range(0, len(h), 2))


def corruptions(rng, ev, who):
    """-> list of (name, payload) single-field corruptions of the valid event ev (DESIGN 5/C03)"""
    other, _ = base_event(rng, "plain")
    other_who = (who + 1) % 4
    out = []

    def put(name, **kw):
        d = dict(ev)
        for k, v in kw.items():
            if v is DROP:
                d.pop(k, None)
            else:
                d[k] = v
        out.append((name, d))
    DROP = object()
    put("valid")
    # id
    put("id:flip", id=flip_hex(rng, ev["id"]))
    put("id:other-event", id=other["id"])
    put("id:zeros", id="0" * 64)
    put("id:upper", id=ev["id"].upper())
    put("id:mixed", id="".join(c.upper() if i % 2 else c for i, c in enumerate(ev["id"])))
    put("id:63", id=ev["id"][:-1])
    put("id:65", id=ev["id"] + "0")
    put("id:nonhex", id="g" + ev["id"][1:])
    put("id:spaced", id=spaced(ev["id"]))
    put("id:leading-space", id=" " + ev["id"][1:])
    put("id:missing", id=DROP)
    put("id:null", id=None)
    put("id:empty", id="")
    put("id:int", id=int(ev["id"][:8], 16))
    put("id:list", id=[ev["id"]])
    # pubkey
    put("pubkey:other", pubkey=env.PUBS[other_who])
    put("pubkey:upper", pubkey=ev["pubkey"].upper())
    put("pubkey:spaced", pubkey=spaced(ev["pubkey"]))
    put("pubkey:62", pubkey=ev["pubkey"][:-2])
    put("pubkey:nonhex", pubkey="z" + ev["pubkey"][1:])
    put("pubkey:not-on-curve", pubkey="%064x" % 5)
    put("pubkey:int", pubkey=5)
    put("pubkey:missing", pubkey=DROP)
    # sig
    put("sig:flip", sig=flip_hex(rng, ev["sig"]))
    put("sig:other-event", sig=other["sig"])
    put("sig:127", sig=ev["sig"][:-1])
    put("sig:126", sig=ev["sig"][:-2])
    put("sig:upper", sig=ev["sig"].upper())
    put("sig:spaced", sig=spaced(ev["sig"]))
    put("sig:zeros", sig="0" * 128)
    put("sig:missing", sig=DROP)
    put("sig:null", sig=None)
    put("sig:int", sig=7)
    # created_at
    ca = ev["created_at"]
    put("created_at:string", created_at=str(ca))
    put("created_at:float", created_at=float(ca))
    put("created_at:true", created_at=True)
    put("created_at:zero", created_at=0)
    put("created_at:negative", created_at=-ca)
    put("created_at:plus1", created_at=ca + 1)
    put("created_at:2^32", created_at=2 ** 32)
    put("created_at:2^63", created_at=2 ** 63)
    put("created_at:2^64", created_at=2 ** 64)
    put("created_at:null", created_at=None)
    put("created_at:missing", created_at=DROP)
    put("created_at:empty-string", created_at="")
    put("created_at:list", created_at=[ca])
    # kind
    put("kind:string", kind="1")
    put("kind:string-spaces", kind=" 1 ")
    put("kind:string-garbage", kind="one")
    put("kind:float", kind=1.0)
    put("kind:float-frac", kind=1.5)
    put("kind:true", kind=True)
    put("kind:zero", kind=0)
    put("kind:negative", kind=-1)
    put("kind:2", kind=2)
    put("kind:2^32", kind=2 ** 32)
    put("kind:null", kind=None)
    put("kind:list", kind=[1])
    put("kind:missing", kind=DROP)
    # tags
    tags = [list(t) for t in ev["tags"]]
    put("tags:empty-element", tags=tags + [[]])
    put("tags:int-item", tags=tags + [["e", 1]])
    put("tags:true-item", tags=tags + [["e", True]])
    put("tags:null-item", tags=tags + [["e", None]])
    put("tags:nested-item", tags=tags + [["e", ["x"]]])
    put("tags:float-item", tags=tags + [["e", 1.5]])
    put("tags:string-tag", tags=tags + ["ab"])
    put("tags:appended", tags=tags + [["t", "added"]])
    put("tags:string", tags="ab")
    put("tags:dict", tags={"a": 1})
    put("tags:null", tags=None)
    put("tags:int", tags=5)
    put("tags:missing", tags=DROP)
    forged = delegation_tag(other_who, ev["pubkey"])
    forged[3] = flip_hex(rng, forged[3])
    put("tags:forged-delegation", tags=tags + [forged])
    put("tags:transplanted-delegation", tags=tags + [delegation_tag(other_who, env.PUBS[(who + 2) % 4])])
    put("tags:valid-delegation-appended", tags=tags + [delegation_tag(other_who, ev["pubkey"])])
    put("tags:delegation-3", tags=tags + [["delegation", env.PUBS[other_who], "kind=1"]])
    put("tags:delegation-5", tags=tags + [delegation_tag(other_who, ev["pubkey"]) + ["x"]])
    put("tags:delegation-badhex", tags=tags + [["delegation", "zz", "kind=1", "00" * 64]])
    put("tags:removed", tags=[])
    # content
    put("content:changed", content=ev["content"] + "!")
    put("content:int", content=5)
    put("content:null", content=None)
    put("content:list", content=[ev["content"]])
    put("content:missing", content=DROP)
    # shape
    put("extra-key", foo=1)
    out.append(("payload:list", [ev]))
    out.append(("payload:string", json.dumps(ev)))
    out.append(("payload:int", 5))
    out.append(("payload:null", None))
    out.append(("payload:empty-object", {}))
    return out


def resigned_variants(rng, who):
    """valid events that are NOT corruptions: re-signed after the change (so authentic), incl. delegation with upper-case delegator hex"""
    out = []
    d = delegation_tag((who + 1) % 4, env.PUBS[who])
    d_upper = [d[0], d[1].upper(), d[2], d[3].upper()]
    for name, tags, content in (("resigned:delegator-upper-hex", [d_upper], "x"), ("resigned:many-tags", [["t", str(i)] for i in range(30)], "y"),
                                ("resigned:empty-content", [], ""), ("resigned:int-tag-item", [["expiration", 1672329427], ["n", 5, -7]], "z"),
                                ("resigned:bool-tag-item", [["e", True]], "b"), ("resigned:null-tag-item", [["e", None]], "n"),
                                ("resigned:nested-tag-item", [["e", ["x"]]], "l"), ("resigned:float-tag-item", [["e", 1.5]], "f"),
                                ("resigned:empty-tag", [[]], "e"), ("resigned:string-tag", ["ab"], "s"),
                                ("resigned:delegation-int-conditions", [["delegation", d[1], 5, d[3]]], "d")):
        _nonce[0] += 1
        out.append((name, env.mk_event(who, 1, env.NOW - _nonce[0], tags, content + str(_nonce[0]))))
    # type-confused created_at / pubkey case, SIGNED AS SUCH (id = hash of the serialization with that very value)
    for name, ca in (("resigned:created_at-float", float(env.NOW - 77)), ("resigned:created_at-string", str(env.NOW - 78)),
                     ("resigned:created_at-true", True), ("resigned:created_at-list", [env.NOW])):
        _nonce[0] += 1
        out.append((name, env.mk_event(who, 1, ca, [], "typed %d" % _nonce[0])))
    return out


def gen_cases(tier, rng):
    cases = []
    nbase = 6 if tier == "quick" else 18
    for b in range(nbase):
        flavour = FLAVOURS[b % len(FLAVOURS)]
        # a fresh base event per corruption: ids never collide, so nothing is ever a duplicate
        names = [n for n, _ in corruptions(rng, *base_event(rng, flavour))]
        for idx, name in enumerate(names):
            ev, who = base_event(rng, flavour)
            cs = corruptions(rng, ev, who)
            cases.append({"name": name, "flavour": flavour, "payload": cs[idx][1]})
        ev, who = base_event(rng, flavour)
        for name, pl in resigned_variants(rng, who):
            cases.append({"name": name, "flavour": flavour, "payload": pl})
    if tier == "thorough":
        for _ in range(2500):
            flavour = rng.choice(FLAVOURS)
            ev, who = base_event(rng, flavour)
            cs = [c for c in corruptions(rng, ev, who) if isinstance(c[1], dict) and c[0] != "valid"]
            (n1, p1), (n2, p2) = rng.sample(cs, 2)
            if n1.split(":")[0] == n2.split(":")[0]:
                continue
            f2 = n2.split(":")[0]
            d = dict(p1)
            if f2 in p2:
                d[f2] = p2[f2]
            else:
                d.pop(f2, None)
            cases.append({"name": n1 + "+" + n2, "flavour": flavour, "payload": d})
    return cases


# ----------------------------------------------------------------------------- implementation drivers
def candidate_ids(payload, model_event):
    ids = set()
    if isinstance(payload, dict) and isinstance(payload.get("id"), str):
        ids.add(payload["id"])
        b = _fromhex(payload["id"])
        if b is not None:
            ids.add(b.hex())
    if isinstance(model_event, dict) and isinstance(model_event.get("id"), str):
        ids.add(model_event["id"])
    return ids


async def ws_batch(st, payloads):
    """["EVENT", payload] x n through one web.start_client session with a live subscriber attached.
    -> per payload: (ok_frame or None), and the sets of broadcast ids / stored ids afterwards"""
    import falcon
    from nostr_relay import web
    from .c04 import NoLimit
    sent, pending = [], [json.dumps(["EVENT", p]) for p in payloads]
    q = asyncio.Queue()
    live = env.FakeClient("live")
    await st.subscribe(live, "live", [{"kinds": [0, 1, 2]}], q)
    while True:
        sid, ev = await asyncio.wait_for(q.get(), 10)
        if ev is None:
            break

    async def ws_send(m):
        sent.append(m)

    async def ws_recv():
        if pending:
            return pending.pop(0)
        raise falcon.WebSocketDisconnected()

    async def ws_close(code=1000):
        sent.append("CLOSED:%s" % code)
    await web.start_client(st, ws_send, ws_recv, ws_close, LOG, rate_limiter=NoLimit(), remote_addr="1.2.3.4")
    await env.quiesce(st)
    for _ in range(200):
        await asyncio.sleep(0)
    got = set()
    while not q.empty():
        sid, ev = q.get_nowait()
        if ev is not None:
            got.add(str(ev.id))
    await st.unsubscribe(live, "live")
    stored = set(await env.stored_ids(st))
    return sent, got, stored


def run_ws(suite, cases, backend, now, pre=None):
    env.patch_web_sleep()
    import aionostr.event as ae

    class _T:
        time = staticmethod(lambda: now)
    ae.time = _T
    payloads = [c["payload"] for c in cases]

    async def go():
        sc = env.Scratch()
        res = []
        try:
            env.load_config()
            B = 250
            for i in range(0, len(payloads), B):
                st = await (env.sql_storage(sc) if backend == "sql" else env.kv_storage(sc))
                try:
                    res.append(await ws_batch(st, payloads[i:i + B]) + (len(payloads[i:i + B]),))
                finally:
                    await env.close(st)
        finally:
            sc.close()
        return res
    res = env.run(go())
    if pre is None:
        pre = precompute(cases, now)
    mcases, mouts = pre
    idx = 0
    hcases, howners = [], []
    for sent, got, stored, n in res:
        frames = [f for f in sent if not f.startswith("CLOSED:")]
        if len(frames) != n:
            suite.disagree({"backend": backend, "batch_at": idx}, "%d OK frames" % n, "%d frames (%s)" % (len(frames), [f[:60] for f in sent[-3:]]))
            idx += n
            continue
        for k in range(n):
            c, mo, mc = cases[idx + k], mouts[idx + k], mcases[idx + k]
            try:
                fr = json.loads(frames[k])
            except Exception:
                fr = None
            ok = bool(fr and fr[0] == "OK" and fr[2] is True)
            cands = candidate_ids(c["payload"], mo["event"])
            st_obs = bool(cands & stored)
            bc_obs = bool(cands & got)
            impl = {"acked": ok, "stored": st_obs, "broadcast": bc_obs}
            acc = mo["result"] == "accepted"
            model = {"acked": acc, "stored": acc, "broadcast": acc}
            suite.case({"backend": backend, "corruption": c["name"], "flavour": c["flavour"]}, nontrivial=c["name"] != "valid")
            suite.count("%s_%s" % (backend, "accepted" if ok else "refused"))
            suite.count("why_" + mo["why"])
            suite.count("field_" + c["name"].split(":")[0].split("+")[0])
            if impl != model:
                suite.disagree({"backend": backend, "corruption": c["name"], "payload": c["payload"]}, dict(model, why=mo["why"]), dict(impl, frame=frames[k][:200]))
            if mo["result"] == "bad_json" and fr and fr[0] == "OK" and fr[3] != "invalid: Bad JSON":
                suite.count("reason_divergence_bad_json")
            hcases.append(dict(mc, **impl))
            howners.append((c, impl, frames[k]))
        idx += n
    for (c, impl, frame), v in zip(howners, model_batch("c03.holds", hcases)):
        if v != "ok":
            suite.violate(v, {"path": "ws", "backend": backend, "corruption": c["name"], "payload": c["payload"], "now": now},
                          "an event that is not authentic (%s) was %s" % (v, "/".join(k for k, x in impl.items() if x)),
                          expected="refused", observed=dict(impl, frame=frame[:200]))


def precompute(cases, now):
    payloads = [c["payload"] for c in cases]
    tables = oracle_tables(payloads, now)
    mcases = [dict(t, now=now, json=p, signed=True) for p, t in zip(payloads, tables)]
    return mcases, model_batch("c03.admission", mcases)


# ----------------------------------------------------------------------------- other paths
def run_service(suite, backend, now, rng, tier):
    import aionostr.event as ae

    class _T:
        time = staticmethod(lambda: now)
    ae.time = _T
    specs = [
        {"content": "svc plain", "kind": None, "tags": None, "created_at": now - 1},
        {"content": "svc dict tags", "kind": None, "tags": {"t": "auth", "d": "auth:xyz", "p": env.PUBS[0]}, "created_at": now - 2},
        {"content": "svc list tags é\"\\", "kind": 31494, "tags": [["d", "nip05:abc"], ["t", "nip05"]], "created_at": now - 3},
        {"content": "svc no created_at", "kind": None, "tags": [["d", "x"]], "created_at": None},
        {"content": "svc kind 1", "kind": 1, "tags": [], "created_at": now - 5},
        {"content": "svc int tag value", "kind": None, "tags": {"p": 5}, "created_at": now - 6},
        {"content": "svc nested tag", "kind": None, "tags": [["e", ["x"]]], "created_at": now - 7},
        {"content": "svc none item", "kind": None, "tags": [["e", None]], "created_at": now - 8},
        {"content": "svc empty tag", "kind": None, "tags": [[]], "created_at": now - 9},
    ]

    async def go():
        sc = env.Scratch()
        out = []
        try:
            env.load_config()
            st = await (env.sql_storage(sc) if backend == "sql" else env.kv_storage(sc))
            try:
                q = asyncio.Queue()
                live = env.FakeClient("live")
                await st.subscribe(live, "live", [{"kinds": [1, 31494]}], q)
                while True:
                    sid, ev = await asyncio.wait_for(q.get(), 10)
                    if ev is None:
                        break
                for sp in specs:
                    before = set(await env.stored_ids(st))
                    err = None
                    try:
                        await st.add_service_event(content=sp["content"], kind=sp["kind"], tags=sp["tags"], created_at=sp["created_at"])
                    except Exception as e:
                        err = "%s: %s" % (type(e).__name__, str(e)[:60])
                    await env.quiesce(st)
                    for _ in range(100):
                        await asyncio.sleep(0)
                    got = set()
                    while not q.empty():
                        sid, ev = q.get_nowait()
                        if ev is not None:
                            got.add(str(ev.id))
                    after = set(await env.stored_ids(st))
                    out.append((sp, err, after - before, got, st.service_pubkey))
            finally:
                await env.close(st)
        finally:
            sc.close()
        return out
    res = env.run(go())
    from nostr_relay.config import Config
    sk = Config.service_privatekey
    import coincurve
    priv = coincurve.PrivateKey(bytes.fromhex(sk))
    payloads = []
    for sp, err, new, got, spub in res:
        tags = sp["tags"]
        tags = [] if tags is None else ([list(kv) for kv in tags.items()] if isinstance(tags, dict) else tags)
        ca = sp["created_at"] or now
        kind = sp["kind"] or 31494
        try:
            eid = env.compute_id(spub, ca, kind, tags, sp["content"])
            sig = priv.sign_schnorr(bytes.fromhex(eid), None).hex()
        except Exception:
            eid, sig = "", ""
        payloads.append({"id": eid, "pubkey": spub, "created_at": ca, "kind": kind, "tags": tags, "content": sp["content"], "sig": sig})
    tables = oracle_tables(payloads, now)
    mcases = [dict(t, now=now, json=p, signed=True) for p, t in zip(payloads, tables)]
    mouts = model_batch("c03.admission", mcases)
    hc = []
    for (sp, err, new, got, spub), p, mo, mc in zip(res, payloads, mouts, mcases):
        acc = mo["result"] == "accepted"
        impl = {"acked": err is None, "stored": p["id"] in new or bool(new), "broadcast": bool(got)}
        model = {"acked": acc, "stored": acc, "broadcast": acc}
        suite.case({"path": "service", "backend": backend, "spec": {k: str(v)[:40] for k, v in sp.items()}}, nontrivial=not acc)
        suite.count("service_%s_%s" % (backend, "accepted" if err is None else "refused"))
        if impl != model:
            suite.disagree({"path": "service", "backend": backend, "spec": sp}, dict(model, why=mo["why"]), dict(impl, error=err))
        hc.append((dict(mc, **impl), sp, impl))
    for (mc, sp, impl), v in zip(hc, model_batch("c03.holds", [x[0] for x in hc])):
        if v != "ok":
            suite.violate(v, {"path": "service", "backend": backend, "spec": sp, "now": now}, "add_service_event produced an effect for an event that is not authentic (%s)" % v, observed=impl)


def run_cli_load(suite, now, rng, configured_validators=True):
    """the bulk loader (`nostr-relay load`): file lines -> storage.add_event; SQL backend through Config.storage.
    configured_validators=False: the configuration lists no validators, so the storage default (is_signed) applies"""
    try:
        from nostr_relay import cli
        fn = cli.load.callback
        while hasattr(fn, "__wrapped__"):
            fn = fn.__wrapped__
    except Exception as e:
        suite.count("cli_not_importable")
        suite.dist["cli_import_error"] = 1
        return
    import sqlite3
    import aionostr.event as ae

    class _T:
        time = staticmethod(lambda: now)
    ae.time = _T
    lines, names = [], []
    for flavour in ("plain", "tags", "delegation"):
        ev, who = base_event(rng, flavour)
        cs = corruptions(rng, ev, who)
        pick = [c for c in cs if c[0] in ("valid", "id:zeros", "id:upper", "id:other-event", "sig:flip", "sig:upper", "content:changed", "created_at:string",
                                          "tags:true-item", "tags:forged-delegation", "pubkey:upper", "kind:string", "id:missing")]
        for k, (name, _) in enumerate(pick):
            ev2, who2 = base_event(rng, flavour)
            pl = dict(corruptions(rng, ev2, who2))[name]
            lines.append(pl if k % 2 else ["EVENT", pl])
            names.append(name)
    sc = env.Scratch()
    try:
        async def go():
            from nostr_relay.config import Config
            import nostr_relay.storage as stmod
            env.load_config()
            st = await env.sql_storage(sc, validators=["nostr_relay.validators.is_signed"])
            url = st.db_url
            await env.close(st)
            Config.verification = {"nip05_verification": "disabled"}
            Config.storage = {"sqlalchemy.url": url, "validators": ["nostr_relay.validators.is_signed"]} if configured_validators else {"sqlalchemy.url": url}
            stmod._STORAGE = None
            path = os.path.join(sc.dir, "events.jsonl")
            with open(path, "w") as f:
                for ln in lines:
                    f.write(json.dumps(ln) + "\n")
            import io
            import contextlib
            buf = io.StringIO()
            with contextlib.redirect_stdout(buf):
                await fn(None, path)
            stmod._STORAGE = None
            return url, buf.getvalue()
        try:
            url, outtxt = env.run(go())
        except Exception as e:
            suite.disagree({"path": "cli-load"}, "loader runs", "%s: %s" % (type(e).__name__, str(e)[:200]))
            return
        dbfile = url.split("///", 1)[1]
        con = sqlite3.connect(dbfile)
        stored = {r[0].hex() for r in con.execute("SELECT id FROM events")}
        con.close()
    finally:
        sc.close()
    payloads = [ln[1] if isinstance(ln, list) else ln for ln in lines]
    tables = oracle_tables(payloads, now)
    mcases = [dict(t, now=now, json=p, signed=True) for p, t in zip(payloads, tables)]
    mouts = model_batch("c03.admission", mcases)
    hc = []
    for name, p, mo, mc in zip(names, payloads, mouts, mcases):
        acc = mo["result"] == "accepted"
        st_obs = bool(candidate_ids(p, mo["event"]) & stored)
        suite.case({"path": "cli-load", "corruption": name}, nontrivial=name != "valid")
        suite.count("cli_%s" % ("stored" if st_obs else "not_stored"))
        if st_obs != acc:
            suite.disagree({"path": "cli-load", "corruption": name, "payload": p}, {"stored": acc, "why": mo["why"]}, {"stored": st_obs})
        hc.append((dict(mc, acked=False, stored=st_obs, broadcast=False), name, p))
    for (mc, name, p), v in zip(hc, model_batch("c03.holds", [x[0] for x in hc])):
        if v != "ok":
            suite.violate(v, {"path": "cli-load", "corruption": name, "payload": p, "now": now}, "the bulk loader stored an event that is not authentic (%s)" % v)


def suite_fromhex(tier, rng):
    s = Suite("corr:fromhex")
    s.rule = ("hex strings with upper/mixed case, ASCII whitespace between and inside byte pairs, odd lengths, non-hex characters: model py_fromhex "
              "vs CPython bytes.fromhex; non-trivial = the string is not plain lower-case hex")
    xs = ["", "00", "0", "0g", "AB", "aB", "ab cd", "ab  cd", " ab", "ab ", "a b", "ab\tcd", "ab\ncd", "ab\x0bcd", "ab\x0ccd", "ab\rcd", "ab\x1ccd", "ab cd",
          "ab cd", "0x00", "-1", "é", "abc", " ", "\t\n", "ab c", "AbCdEf0123456789", "ff" * 32, "FF" * 32, spaced("ab" * 32)]
    for _ in range(300 if tier == "quick" else 3000):
        xs.append("".join(rng.choice("0123456789abcdefABCDEF \t\ngz") for _ in range(rng.randint(0, 12))))
    mo = model_batch("c03.fromhex", xs)
    for x, m in zip(xs, mo):
        try:
            r = bytes.fromhex(x)
        except ValueError:
            r = None
        s.case(x, nontrivial=not (x and all(c in "0123456789abcdef" for c in x)))
        s.count("ok" if r is not None else "error")
        if m != r:
            s.disagree({"hex": x}, m, r)
    return s


def suite_finding(now):
    """the open finding: the relay's serializer (aionostr/rapidjson) writes \\u001F, JSON.stringify / json.dumps write \\u001f"""
    from aionostr.event import Event
    s = Suite("finding:serializer-hex-case")
    s.rule = "one event whose content holds U+001F, id and signature computed over the RELAY's serialization; judged with the independent serializer"
    e = Event(pubkey=env.PUBS[0], content="unit\x1fseparator", created_at=now - 3, kind=1, tags=[])
    e.sign(env.SECRETS[0])
    payload = e.to_json_object()

    async def go():
        sc = env.Scratch()
        try:
            env.load_config()
            st = await env.sql_storage(sc)
            try:
                return await ws_batch(st, [payload])
            finally:
                await env.close(st)
        finally:
            sc.close()
    env.patch_web_sleep()
    sent, got, stored = env.run(go())
    fr = json.loads(sent[0]) if sent else None
    impl = {"acked": bool(fr and fr[2] is True), "stored": payload["id"] in stored, "broadcast": payload["id"] in got}
    t = oracle_tables([payload], now)[0]
    v = model_batch("c03.holds", [dict(t, now=now, json=payload, **impl)])[0]
    s.case({"content_cps": [ord(c) for c in payload["content"]]})
    if v != "ok":
        s.violate(v, {"path": "ws", "backend": "sql", "corruption": "serializer-hex-case", "payload": payload, "now": now},
                  "accepted event's id is the hash of the relay's own (rapidjson) serialization, not of the JSON.stringify/json.dumps one", observed=impl)
    return s


def suite_validator_orders(tier, rng, now):
    """sessions [valid event, corrupted event] through web.start_client on storages whose validator list puts other shipped
    validators in front of / behind is_signed: whatever the earlier validators do with a type-confused event (raise, refuse,
    pass), an event that is not authentic is never acknowledged true, stored or broadcast (c03.holds only: the other
    validators legitimately refuse more than the admission model does)"""
    import itertools
    s = Suite("oracle:validator-order")
    s.rule = ("every order of the shipped validators is_not_too_large / is_recent / is_signed (quick: 3 orders) x sessions of a valid event followed "
              "by one corruption (type-confused created_at / kind / content / tags, forged id / sig / delegation, ...) on one connection through "
              "web.start_client, SQL backend; c03.holds on (acknowledged, stored, broadcast) of the corrupted event; non-trivial = the corrupted "
              "event reaches a validator in front of is_signed")
    env.patch_web_sleep()
    import aionostr.event as ae

    class _T:
        time = staticmethod(lambda: now)
    ae.time = _T
    vals = ["nostr_relay.validators.is_not_too_large", "nostr_relay.validators.is_recent", "nostr_relay.validators.is_signed"]
    orders = list(itertools.permutations(vals))
    if tier == "quick":
        orders = [orders[0], orders[3], orders[4]]
    cases = [c for c in gen_cases("quick", rng) if c["name"] != "valid"]
    if tier == "quick":
        cases = rng.sample(cases, min(len(cases), 60))
    pre_m, pre_o = precompute(cases, now)
    for order in orders:
        async def go(order=order):
            sc = env.Scratch()
            out = []
            try:
                env.load_config(oldest_event=10 ** 9, max_event_size=10 ** 6)
                st = await env.sql_storage(sc, validators=list(order))
                try:
                    for k, c in enumerate(cases):
                        good = env.mk_event(k % 3, 1, now - 1, [], "good %d %s" % (k, order[0][-6:]))
                        out.append(await ws_batch(st, [good, c["payload"]]))
                finally:
                    await env.close(st)
            finally:
                sc.close()
            return out
        res = env.run(go())
        hcases, owners = [], []
        for c, mc, mo, (sent, got, stored) in zip(cases, pre_m, pre_o, res):
            frames = [f for f in sent if not f.startswith("CLOSED:")]
            fr = None
            if len(frames) >= 2:
                try:
                    fr = json.loads(frames[1])
                except Exception:
                    fr = None
            ok = bool(fr and fr[0] == "OK" and fr[2] is True)
            cands = candidate_ids(c["payload"], mo["event"])
            impl = {"acked": ok, "stored": bool(cands & stored), "broadcast": bool(cands & got)}
            s.case({"order": [o.split(".")[-1] for o in order], "corruption": c["name"]}, nontrivial=order[0] != vals[2])
            s.count("second_frame_" + (str(fr[0]) + ("_true" if ok else "_false") if fr else "none"))
            hcases.append(dict(mc, **impl))
            owners.append((c, impl, frames[1][:200] if len(frames) >= 2 else None, order))
        for (c, impl, frame, order), v in zip(owners, model_batch("c03.holds", hcases)):
            if v != "ok":
                s.violate(v, {"path": "ws-order", "order": list(order), "corruption": c["name"], "payload": c["payload"], "now": now},
                          "an event that is not authentic (%s) was %s behind the validator order %s" % (v, "/".join(k for k, x in impl.items() if x), [o.split(".")[-1] for o in order]),
                          expected="refused", observed=dict(impl, frame=frame))
    return s


def run(tier, seed):
    rng = rng_for(seed, "c03")
    now = env.NOW
    suites = [suite_bip340(tier, rng), suite_fromhex(tier, rng)]
    s = Suite("corr:admit")
    s.rule = ("every single-field corruption of DESIGN 5/C03 (id: flip/other/zeros/upper/mixed/63/65/non-hex/spaced/missing/null/int/list; pubkey; sig; "
              "created_at and kind as string/float/bool/0/negative/2^32/2^63/2^64/null/missing; tags: empty element, non-string items, not a list, "
              "forged/transplanted/valid/short/long delegation; content changed/non-string/missing; extra key; non-object payloads) of freshly signed "
              "base events (plain / tagged / one and two delegation tags), re-signed valid variants, and in thorough pairs of corruptions, submitted as "
              "EVENT through web.start_client on SQL and LMDB with a live subscriber: OK flag, stored ids (full dump) and broadcast ids vs the model; "
              "c03.holds evaluated on every observation; non-trivial = not the unmodified valid event")
    cases = gen_cases(tier, rng)
    pre = precompute(cases, now)
    for backend in ("sql", "kv"):
        run_ws(s, cases, backend, now, pre)
    suites.append(s)
    s2 = Suite("corr:paths")
    s2.rule = ("BaseStorage.add_service_event (plain, dict tags, list tags, no created_at, non-string / nested / empty tag items) on both backends and the "
               "cli bulk loader (lines as event objects and as [\"EVENT\", event]) on SQL: stored / broadcast vs the model applied to the JSON they hand to "
               "add_event; non-trivial = the model refuses the event")
    for backend in ("sql", "kv"):
        run_service(s2, backend, now, rng, tier)
    run_cli_load(s2, now, rng)
    run_cli_load(s2, now, rng, configured_validators=False)
    suites.append(s2)
    suites.append(suite_validator_orders(tier, rng, now))
    suites.append(suite_finding(now))
    from .. import extra
    from .. import extra as _extra
    _more = [_extra.suite_second_instance_policies(tier, seed), _extra.suite_served_is_signed(tier, seed)]
    return list(list(suites) + [extra.suite_replay_after_removal(tier, seed), extra.suite_forged_concurrent(tier, seed)]) + _more

def replay(payload):
    v = payload["violation"]
    c = v["case"]
    now = c.get("now", env.NOW)
    s = Suite("replay")
    if c.get("path") == "ws-order":
        env.patch_web_sleep()

        async def go():
            sc = env.Scratch()
            try:
                env.load_config(oldest_event=10 ** 9, max_event_size=10 ** 6)
                st = await env.sql_storage(sc, validators=list(c["order"]))
                try:
                    return await ws_batch(st, [env.mk_event(0, 1, now - 1, [], "good replay"), c["payload"]])
                finally:
                    await env.close(st)
            finally:
                sc.close()
        sent, got, stored = env.run(go())
        frames = [f for f in sent if not f.startswith("CLOSED:")]
        print("frames:", [f[:160] for f in frames])
        fr = json.loads(frames[1]) if len(frames) >= 2 else None
        mcs, mos = precompute([{"name": c["corruption"], "flavour": "replay", "payload": c["payload"]}], now)
        cands = candidate_ids(c["payload"], mos[0]["event"])
        impl = {"acked": bool(fr and fr[0] == "OK" and fr[2] is True), "stored": bool(cands & stored), "broadcast": bool(cands & got)}
        vd = model_batch("c03.holds", [dict(mcs[0], **impl)])[0]
        print("observed:", impl, "verdict:", vd)
        print("replay:", "FAIL" if vd != "ok" else "pass")
        return 1 if vd != "ok" else 0
    if c.get("path") == "ws":
        run_ws(s, [{"name": c["corruption"], "flavour": "replay", "payload": c["payload"]}], c["backend"], now)
    elif c.get("path") == "service":
        print("replay of service-event cases: run ./check C03 (suite corr:paths)")
    else:
        run_ws(s, [{"name": c.get("corruption", "?"), "flavour": "replay", "payload": c["payload"]}], "sql", now)
    for x in s.violations:
        print("still failing:", x["cls"], x["what"])
    print("replay:", "FAIL" if s.violations else "pass")
    return 1 if s.violations else 0
