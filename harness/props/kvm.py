"""Development check of the shared LMDB model (not a property; not in the manifest)."""
from .. import kvm

ASSUMPTIONS = ["py-lmdb behaves like shims/lmdb.py (ordered map, cursor conventions)"]


def run(tier, seed):
    return [kvm.suite_scan(tier, seed), kvm.suite_multi(tier, seed)]


def replay(payload):
    print("no replay for KVM")
    return 0
