"""Development check of the shared LMDB model (not a property; not in the manifest)."""
from .. import kvm

ASSUMPTIONS = ["py-lmdb behaves like shims/lmdb.py (ordered map, cursor conventions)"]


def run(tier, seed):
    # correspondence of the shared model only; the executable statements of C01/C02/C11/C12 (kvm.suites_c01 ... suites_c12)
    # run under the property checks, where their known findings are listed
    return [kvm.suite_scan(tier, seed), kvm.suite_multi(tier, seed), kvm.suite_plan(tier, seed), kvm.suite_answer(tier, seed),
            kvm.suite_hostile(tier, seed)]


def replay(payload):
    return kvm.replay(payload)
