"""Development check of the LMDB query path (shared model KVM + the LMDB halves of C01/C02/C11/C12; not in the manifest).
The property checks C01/C02/C11/C12 call kvm.suites_c01 ... suites_c12; here everything runs together so that the query-path
model, its theorems (coq/Props/KVM.v) and the executable statements can be checked on their own: ./check KVM."""
from .. import kvm

ASSUMPTIONS = [
    "py-lmdb behaves like shims/lmdb.py (ordered map, cursor conventions)",
    "the store is coherent (KVM.Coherent.Coherent): proved as an invariant of every writer history by KVW, taken as hypothesis by the query theorems",
    "stored events have no empty tag (Event.verify indexes tag[0] of every tag: admission rejects them) - hypothesis tags_ok",
    "filters are what NostrQuery.model_validate returns (wf_filter: ids/authors >= 64 hex digits, one-character tag names, since/until in range); full-text search (NIP-50) disabled",
    "ids_desc: the compiled keys of the ids of a filter are strictly descending (true of sorted 64-digit ids; an id of odd length > 64 next to its own 64-digit prefix is outside the theorem, inside the correspondence)",
    "the order in which a chained multi-index plan yields its ids (iteration order of a Python set) is unspecified: compared as sets",
]


def run(tier, seed):
    return [kvm.suite_corpus(tier, seed), kvm.suite_scan(tier, seed), kvm.suite_multi(tier, seed), kvm.suite_plan(tier, seed),
            kvm.suite_answer(tier, seed), kvm.suite_hostile(tier, seed), kvm.suite_oracle(tier, seed),
            kvm.suite_frame(tier, seed), kvm.suite_monotone(tier, seed), kvm.suite_union(tier, seed)]


def replay(payload):
    return kvm.replay(payload)
