"""C05 - live delivery: live matching vs NIP-01 matching, trace validation of fan-out / notify tasks."""
from .. import relay

ASSUMPTIONS = ["asyncio-visible interleavings only; real thread pre-emption is not explored",
               "R4: a frame counts as sent when it is enqueued on the connection's outbound FIFO"]


def run(tier, seed):
    from .. import extra
    return [relay.suite_scripted(tier, seed, "sql", pid="C05"), relay.suite_scripted(tier, seed, "kv", pid="C05"), extra.suite_peer_gone(tier, seed), extra.suite_two_workers(tier, seed), extra.suite_colliding_client_ids(tier, seed), extra.suite_publish_during_churn(tier, seed), extra.suite_stalled_reader(tier, seed), extra.suite_live_then_stored(tier, seed), relay.suite_concurrent_dup(tier, seed, ("sql",)), relay.suite_exhaustive(tier, seed, "sql", pid="C05"), relay.suite_live(tier, seed, pid="C05"), relay.suite_relay(tier, seed, "sql", label="live", pid="C05"),
            relay.suite_relay(tier, seed, "kv", label="live", pid="C05")]


def replay(payload):
    return relay.replay(payload, "C05")
