"""C18 - rate limiter: correspondence of RateLimiter.is_limited with the model,
and the executable statement (sliding-window-log spec + deque bound) evaluated on
the implementation's own decisions."""
import itertools
from ipaddress import ip_address

from .. import common
from ..common import Suite, model_batch, rng_for

ASSUMPTIONS = [
    "clock injected through RateLimiter._timestamp with integral, non-decreasing values (perf_counter itself is trusted)",
    "rule lists are non-empty with intervals from parse_option's table (1, 60, 3600)",
    "addresses are never the literal strings 'global' or 'ip'",
]

ADDRS = ["1.1.1.1", "2.2.2.2", "::1"]
CMDS = ["EVENT", "REQ"]
UNITS = [("s", 1), ("min", 60), ("h", 3600)]


def impl_run(cfg_opts, arrivals):
    from nostr_relay.rate_limiter import RateLimiter

    rl = RateLimiter(cfg_opts)
    clock = [0]
    rl._timestamp = lambda: clock[0]
    obs = []
    for arr in arrivals:
        if len(arr) == 1:              # [t]: a client disconnects at time t -> RateLimiter.cleanup()
            clock[0] = arr[0]
            rl.cleanup()
            continue
        t, addr, cmd = arr
        clock[0] = t
        lim = bool(rl.is_limited(addr, [cmd, {}]))
        b = rl.recent_commands.get(ip_address(addr).packed)
        la = len(b.get(cmd, ())) if b is not None else 0
        g = rl.recent_commands.get("global")
        lg = len(g.get(cmd, ())) if g is not None else 0
        obs.append([lim, la, lg])
    return obs


def opts_to_cfg(opts):
    """{"scope": {"CMD": "10/s,5/min"}} -> model config with parsed rules, via the real parse_option"""
    from nostr_relay.rate_limiter import RateLimiter

    rl = RateLimiter({})
    return {scope: {cmd: [list(r) for r in rl.parse_option(s)] for cmd, s in cmds.items()} for scope, cmds in opts.items()}


def gen_rule(rng):
    n = rng.choice([-1, 0, 1, 1, 2, 2, 3, 5])
    u = rng.choice(UNITS)[0]
    return "%d/%s" % (n, u)


def gen_opts(rng):
    opts = {}
    scopes = rng.sample(["global", "ip", "1.1.1.1", "::1"], rng.randint(1, 3))
    for sc in scopes:
        opts[sc] = {}
        for cmd in rng.sample(CMDS, rng.randint(1, 2)):
            opts[sc][cmd] = ",".join(gen_rule(rng) for _ in range(rng.randint(1, 3)))
    return opts


def gen_arrivals(rng, n):
    t = rng.choice([0, 0, 5, 100])
    out = []
    for _ in range(n):
        t += rng.choice([0, 0, 0, 1, 1, 1, 2, 5, 29, 30, 31, 59, 60, 61, 600, 3599, 3600, 3601])
        if rng.random() < 0.15:
            out.append([t])            # cleanup (some client disconnected)
        else:
            out.append([t, rng.choice(ADDRS), rng.choice(CMDS)])
    return out


def corpus_cases():
    return [
        # sustained traffic just below the limit: the deque must stay bounded (F22)
        ({"ip": {"EVENT": "10/min"}}, [[7 * i, "1.1.1.1", "EVENT"] for i in range(400)]),
        # IPv6 address with an exemption and a generic ip rule (F22, precedence)
        ({"::1": {"EVENT": "-1/s"}, "ip": {"EVENT": "1/min"}}, [[i, "::1", "EVENT"] for i in range(5)]),
        # n = 0 admits nothing
        ({"ip": {"EVENT": "0/s"}}, [[i // 2, "1.1.1.1", "EVENT"] for i in range(6)]),
        ({"global": {"EVENT": "2/s"}, "ip": {"EVENT": "1/s"}}, [[0, "1.1.1.1", "EVENT"], [0, "1.1.1.1", "EVENT"], [0, "2.2.2.2", "EVENT"]]),
        # cleanup with an address-specific rule that is longer than every ip rule
        ({"1.1.1.1": {"EVENT": "1/h"}, "ip": {"EVENT": "5/s"}}, [[0, "1.1.1.1", "EVENT"], [10], [20, "1.1.1.1", "EVENT"]]),
        ({"ip": {"EVENT": "1/s,2/h"}}, [[0, "1.1.1.1", "EVENT"], [5, "1.1.1.1", "EVENT"], [10], [20, "1.1.1.1", "EVENT"]]),
        # large allowances are allowances too: the 1031st message of an hour under 1030/h is refused (per address, global, specific)
        ({"ip": {"EVENT": "1030/h"}}, [[i // 4, "1.1.1.1", "EVENT"] for i in range(1040)]),
        ({"global": {"REQ": "1100/min"}}, [[i // 40, ADDRS[i % 2], "REQ"] for i in range(1110)]),
        ({"2.2.2.2": {"EVENT": "1500/h"}, "ip": {"EVENT": "2000/h"}}, [[i // 2, "2.2.2.2", "EVENT"] for i in range(1510)]),
        # many addresses inside one interval: an address seen early is still limited when it comes back
        ({"ip": {"EVENT": "2/h"}, "9.9.9.9": {"EVENT": "1/h"}},
         [[0, "10.0.0.1", "EVENT"], [0, "10.0.0.1", "EVENT"], [0, "9.9.9.9", "EVENT"]] + [[1 + i // 100, "10.%d.%d.%d" % (1 + i // 65536, (i // 256) % 256, i % 256), "EVENT"] for i in range(4200)]
         + [[60, "10.0.0.1", "EVENT"], [60, "9.9.9.9", "EVENT"], [61, "10.0.0.1", "EVENT"]]),
    ]


def run_cases(suite, cases):
    modelcases, impls = [], []
    for opts, arr in cases:
        cfg = opts_to_cfg(opts)
        impls.append(impl_run(opts, arr))
        modelcases.append({"cfg": cfg, "arrivals": arr})
    mouts = model_batch("c18.run", modelcases)
    verdicts = model_batch("c18.holds", [dict(mc, obs=io) for mc, io in zip(modelcases, impls)])
    for (opts, arr), mc, io, mo, vd in zip(cases, modelcases, impls, mouts, verdicts):
        refused = sum(1 for o in io if o[0])
        suite.count("with_cleanup" if any(len(a) == 1 for a in arr) else "no_cleanup")
        suite.case({"opts": opts, "arrivals": arr[:12], "n_arrivals": len(arr)}, nontrivial=(0 < refused < len(io)))
        suite.count("len_%d" % min(len(arr), 20))
        suite.count("refused_some" if 0 < refused < len(io) else ("refused_all" if refused else "refused_none"))
        for sc in opts:
            suite.count("scope_" + ("specific" if sc not in ("global", "ip") else sc))
        if mo != io:
            i = next(k for k in range(len(io)) if k >= len(mo) or mo[k] != io[k])
            suite.disagree({"opts": opts, "arrivals": arr[: i + 1]}, mo[: i + 1][-3:], io[: i + 1][-3:])
        if vd != "ok":
            suite.violate(vd, {"opts": opts, "arrivals": arr if len(arr) < 40 else arr[:40] + ["... %d more" % (len(arr) - 40)],
                               "full_len": len(arr)}, "limiter decision / state deviates from the sliding-window statement: " + vd,
                          observed=io[-3:])


def run(tier, seed):
    rng = rng_for(seed, "c18")
    s0 = Suite("corr:limiter-corpus")
    s0.rule = "fixed corpus (sustained sub-limit traffic, IPv6 exemption, n=0, shared global/ip); non-trivial = some but not all arrivals refused"
    run_cases(s0, corpus_cases())
    s1 = Suite("corr:limiter")
    s1.rule = ("seeded random rule sets (1-3 scopes x 1-2 commands x 1-3 rules, n in {-1,0,1,2,3,5}, units s/min/h) x arrival "
               "sequences on an integer clock with steps around each interval; decisions and deque lengths compared step by step with "
               "the model; the executable statement is evaluated on the implementation's decisions; non-trivial = some but not all refused")
    n = 600 if tier == "quick" else 6000
    cases = []
    for _ in range(n):
        cases.append((gen_opts(rng), gen_arrivals(rng, rng.randint(1, 14 if tier == "quick" else 40))))
    # sustained runs
    for k in range(3 if tier == "quick" else 20):
        nmsg = rng.choice([3, 10, 20])
        unit, secs = rng.choice(UNITS[:2])
        step = max(1, secs // nmsg + rng.choice([0, 1]))
        cases.append(({"ip": {"EVENT": "%d/%s" % (nmsg, unit)}}, [[i * step, "1.1.1.1", "EVENT"] for i in range(600)]))
    run_cases(s1, cases)
    suites = [s0, s1]
    if tier == "thorough":
        s2 = Suite("corr:limiter-exhaustive")
        s2.rule = "all arrival sequences of length <= 5 over time steps {0,1,30,60} x 2 addresses, one command, 6 rule sets"
        rulesets = [{"ip": {"EVENT": "1/s"}}, {"ip": {"EVENT": "2/min"}}, {"global": {"EVENT": "2/min"}, "ip": {"EVENT": "1/min"}},
                    {"1.1.1.1": {"EVENT": "-1/s"}, "ip": {"EVENT": "1/min"}}, {"global": {"EVENT": "2/min,1/s"}},
                    {"1.1.1.1": {"EVENT": "1/min"}, "global": {"EVENT": "3/h"}}]
        ex = []
        for L in range(1, 6):
            for steps in itertools.product([0, 1, 30, 60], repeat=L):
                for addrs in itertools.product(ADDRS[:2], repeat=L):
                    t, arr = 0, []
                    for st, a in zip(steps, addrs):
                        t += st
                        arr.append([t, a, "EVENT"])
                    for rs in rulesets:
                        ex.append((rs, arr))
        run_cases(s2, ex)
        suites.append(s2)
    # interval table (translated) against parse_option
    s3 = Suite("corr:limiter-intervals")
    s3.rule = "every interval name accepted by parse_option, plus rejected ones"
    from nostr_relay.rate_limiter import RateLimiter
    rl = RateLimiter({})
    names = ["s", "second", "sec", "m", "minute", "min", "h", "hour", "hr", "S", "Min", "d", "", "ms"]
    mo = model_batch("c18.interval", [x.lower() for x in names])
    for nme, m in zip(names, mo):
        try:
            r = rl.parse_option("3/" + nme)
            io = r[0][0] if r else None
        except ValueError:
            io = None
        s3.case(nme)
        if io != m:
            s3.disagree(nme, m, io)
    suites.append(s3)
    suites.append(suite_web(tier, seed))
    return suites


def suite_web(tier, seed):
    """web.start_client must put every well-formed message to the limiter exactly once, whatever the
    connection's throttle state, and act on it only if it was let through"""
    import json
    from .. import env, relay
    from nostr_relay.rate_limiter import RateLimiter
    s = Suite("trace:limiter-web")
    s.rule = ("sessions of 10-30 CLOSE / REQ / EVENT (valid and refused, which raises the connection throttle) messages through the real "
              "web.start_client with the real RateLimiter on an injected clock; every well-formed message must reach is_limited exactly once and "
              "the verdicts must satisfy the sliding-window statement; non-trivial = some message refused by the limiter")
    rng = rng_for(seed, "c18web")
    cases = []
    for _ in range(6 if tier == "quick" else 40):
        opts = {"ip": {"CLOSE": "%d/h" % rng.choice([2, 3]), "EVENT": "%d/min" % rng.choice([2, 4]), "REQ": "3/min"}}
        calls = []
        clock = [0]

        def factory():
            rl = RateLimiter(opts)
            rl._timestamp = lambda: clock[0]
            real = rl.is_limited

            def is_limited(addr, message):
                v = real(addr, message)
                calls.append([clock[0], addr, message[0], bool(v)])
                return v
            rl.is_limited = is_limited
            return rl

        async def session():
            d = relay.Driver("sql", sub_limit=3, max_limit=50, limiter_factory=factory)
            await d.start()
            await d.open(0)
            sent = []
            good = env.mk_event(0, 1, env.NOW - 5, [], "w")
            for i in range(rng.randint(10, 30)):
                clock[0] += rng.choice([0, 1, 5, 20])
                k = rng.choice(["CLOSE", "CLOSE", "EVENT", "BADEVENT", "REQ"])
                m = {"CLOSE": ["CLOSE", "x"], "EVENT": ["EVENT", good], "BADEVENT": ["EVENT", dict(good, sig="00" * 64)],
                     "REQ": ["REQ", "q%d" % (i % 2), {"kinds": [1]}]}[k]
                n0 = len(calls)
                await d.msg(0, m)
                sent.append((m[0], len(calls) - n0))
                if d.conns[0].task.done():
                    break
            await d.finish()
            return sent
        sent = env.run(session())
        cases.append((opts, list(calls), sent))
    model_cases, impl_obs = [], []
    for opts, calls, sent in cases:
        bypass = [i for i, (cmd, n) in enumerate(sent) if n != 1]
        arr = [[t, a, c] for t, a, c, _ in calls]
        s.case({"opts": opts, "messages": [c for c, _ in sent]}, nontrivial=any(v for *_, v in calls))
        if bypass:
            s.violate("limiter-bypassed", {"opts": opts, "messages": sent},
                      "a well-formed message was not put to the rate limiter exactly once (message index %d)" % bypass[0], observed=sent)
        model_cases.append({"cfg": opts_to_cfg(opts), "arrivals": arr, "obs": [[v, 0, 0] for *_, v in calls]})
    verdicts = model_batch("c18.holds", model_cases)
    for (opts, calls, sent), vd in zip(cases, verdicts):
        if vd not in ("ok", "deque-unbounded"):
            s.violate(vd, {"opts": opts, "calls": calls}, "limiter verdicts seen by start_client deviate from the sliding-window statement: " + vd)
    return s


def replay(payload):
    v = payload["violation"]
    c = v["case"]
    arr = c["arrivals"]
    if arr and isinstance(arr[-1], str):
        # long sustained case: regenerate from its prefix pattern
        step = arr[1][0] - arr[0][0]
        arr = [[arr[0][0] + i * step, arr[0][1], arr[0][2]] for i in range(c["full_len"])]
    s = Suite("replay")
    run_cases(s, [(c["opts"], arr)])
    for x in s.violations:
        print("still failing:", x["cls"], x["what"])
    print("replay:", "FAIL" if s.violations else "pass")
    return 1 if s.violations else 0
