"""C07 - all effects of an event are applied atomically, even across crashes.  SQL half: harness/sqlm.py, LMDB half: harness/kvw.py (see design.d)."""
from .. import common
from .. import sqlm
from .. import kvw as kvb

ASSUMPTIONS = [
    "SQLite's evaluation of a parsed statement and its atomic commit are trusted (modelled, pinned by correspondence)",
    "py-lmdb behaves like shims/lmdb.py (ordered map, tracked cursors, copy-on-commit write transactions, 511-byte keys)",
    "admitted events are well formed (C03): string/integer tag items, lower-case hex ids",
]


def run(tier, seed):
    common.PID_ALIAS.update({"SQLM": "C07", "KVW": "C07", "KVM": "C07"})
    from .. import extra
    return common.drop_foreign(sqlm.suites_c07(tier, seed) + kvb.suites_c07(tier, seed) + [extra.suite_sqlite_kill(tier, seed), extra.suite_concurrent_fault(tier, seed)], "C07")


def replay(payload):
    common.PID_ALIAS.update({"SQLM": "C07", "KVW": "C07", "KVM": "C07"})
    v = payload.get("violation") or {}
    suite = str(v.get("suite", ""))
    if "sql" in suite:
        return sqlm.replay(payload)
    try:
        return kvb.replay(payload, "C07")
    except TypeError:
        return kvb.replay(payload)
