"""C10 - every LMDB index entry has its record and every record all its index entries.
Real LMDBStorage + WriterThread (on shims/lmdb.py) against the extracted write-path model
(coq/KVW): whole keyspace byte for byte, acknowledgement, broadcast flag and mutation trace
after every operation of generated histories (incl. operations aborted by an injected engine
failure at every mutation), and the executable statement `coherent_b` of coq/KVW/Oracles.v plus
an independent Python walker evaluated on the implementation's keyspace after every step."""
from .. import kvw

ASSUMPTIONS = [
    "py-lmdb behaves like shims/lmdb.py = coq/KVM/Engine.v: ordered byte-key map, copy-on-commit single-writer transactions, 511-byte key limit, "
    "cursors of a write transaction keep their logical position under txn.delete (mdb_cursor_del0)",
    "msgpack round-trips str / int / bytes and returns tuples for lists (pip-vendored pure-Python msgpack 1.1)",
    "admitted events carry 64-digit lower-case hex id and pubkey and tags that are arrays of strings (C03); created_at 0 never reaches the "
    "writer (Event.__init__ replaces it by the clock, which is not 0)",
    "the argument of a reindex / bulk_update is an event read from this store (LMDBStorage.reindex)",
]


def run(tier, seed):
    kvw.PID[0] = "C10"
    from .. import kvm, common
    common.PID_ALIAS.update({"KVM": "C10"})
    return kvw.suites_c10(tier, seed) + [kvm.suite_access_paths(tier, seed)]


def replay(payload):
    kvw.PID[0] = "C10"
    return kvw.replay(payload, "C10")
