"""C06 - OK acknowledgements agree with what the relay actually did.  SQL half: harness/sqlm.py, LMDB half: harness/kvw.py (see design.d)."""
from .. import common
from .. import sqlm
from .. import kvw as kvb
from .. import relay

ASSUMPTIONS = [
    "SQLite's evaluation of a parsed statement and its atomic commit are trusted (modelled, pinned by correspondence)",
    "py-lmdb behaves like shims/lmdb.py (ordered map, tracked cursors, copy-on-commit write transactions, 511-byte keys)",
    "admitted events are well formed (C03): string/integer tag items, lower-case hex ids",
]


def run(tier, seed):
    common.PID_ALIAS.update({"SQLM": "C06", "KVW": "C06", "KVM": "C06"})
    common.PID_ALIAS.update({"RELAY": "C06"})
    extra = [relay.suite_relay(tier, seed, "sql", n=20 if tier == "quick" else 120, label="ack", pid="C06"),
             relay.suite_relay(tier, seed, "kv", n=20 if tier == "quick" else 120, label="ack", pid="C06"),
             relay.suite_concurrent_dup(tier, seed, ("sql", "kv"))]
    from .. import extra as _x
    extra = extra + [_x.suite_multi_d_tags(tier, seed), _x.suite_ack_with_failing_broadcast(tier, seed), _x.suite_close_drains_queue(tier, seed), _x.suite_int_tag_items(tier, seed)]
    return common.drop_foreign(sqlm.suites_c06(tier, seed) + kvb.suites_c06(tier, seed) + extra, "C06")


def replay(payload):
    common.PID_ALIAS.update({"SQLM": "C06", "KVW": "C06", "KVM": "C06"})
    v = payload.get("violation") or {}
    suite = str(v.get("suite", ""))
    if "sql" in suite:
        return sqlm.replay(payload)
    try:
        return kvb.replay(payload, "C06")
    except TypeError:
        return kvb.replay(payload)
