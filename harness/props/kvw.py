"""Development check of the LMDB write-path model coq/KVW (not a property; not in the manifest):
all write-path suites with every oracle switched on."""
from .. import kvw

ASSUMPTIONS = ["py-lmdb behaves like shims/lmdb.py (ordered map, tracked cursors, copy-on-commit write transactions)"]


def run(tier, seed):
    kvw.PID[0] = "KVW"
    return kvw.suites_all(tier, seed)


def replay(payload):
    kvw.PID[0] = "KVW"
    return kvw.replay(payload, "KVW")
