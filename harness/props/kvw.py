"""Development check of the LMDB write-path model (not a property; not in the manifest)."""
from .. import kvw

ASSUMPTIONS = ["py-lmdb behaves like shims/lmdb.py (ordered map, tracked cursors, copy-on-commit write transactions)"]


def run(tier, seed):
    kvw.PID[0] = "KVW"
    return kvw.suites_all(tier, seed)


def replay(payload):
    return kvw.replay(payload)
