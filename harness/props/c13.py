"""C13 - subscription protocol: trace validation of the asynchronous core + filter validation."""
from .. import relay, extra

ASSUMPTIONS = ["asyncio-visible interleavings only (gates at query rows / notify tasks / message delivery); real thread pre-emption inside executors and the OS scheduler are not explored",
               "stored rows of a REQ, add_event outcomes and prepare() results are taken from the implementation as schedule data (tied by C01/C02/C06)"]


def run(tier, seed):
    return [relay.suite_scripted(tier, seed, "sql", pid="C13"), relay.suite_scripted(tier, seed, "kv", pid="C13"), relay.suite_exhaustive(tier, seed, "sql", pid="C13"), relay.suite_validate(tier, seed, pid="C13"), relay.suite_churn(tier, seed, "sql", pid="C13"), relay.suite_relay(tier, seed, "sql", pid="C13"),
            relay.suite_relay(tier, seed, "kv", pid="C13"), extra.suite_kv_req_burst(tier, seed), extra.suite_failing_query_answered(tier, seed), extra.suite_colliding_client_ids(tier, seed), extra.suite_config_defaults(tier, seed, ("subscription_limit",)), extra.suite_simultaneous_reqs(tier, seed), extra.suite_abandoned_big_queries(tier, seed)]


def replay(payload):
    return relay.replay(payload, "C13")
