"""C04 - frames are well-formed JSON of the expected shape with the client's subscription id, and
served events are verbatim.

corr:encode-basestring  model encode_basestring / rapidjson string escaping vs the real ones, per code point
corr:parser             the model's JSON parser vs CPython json.loads / rapidjson on a JSON text corpus
corr:frames             raw frames of util.event_as_json, web.send_subscriptions, web.start_client, json_dumps:
                        parsed by the MODEL parser (extracted) to the expected value; json.loads must agree;
                        raw text compared with the model's rendering
corr:roundtrip          accept -> store -> serve (stored REQ, live push, get_event) on both backends: fields
                        equal, id and signature re-verified, frames well-formed; model codec predicts verbatim
"""
import asyncio
import json
import logging

from .. import common, env
from ..common import Suite, model_batch, rng_for

ASSUMPTIONS = [
    "rapidjson (OK/NOTICE/AUTH frames, JSON tags column) and msgpack / SQLite column codecs are trusted libraries, covered by correspondence only",
    "subscription ids reach the serializer as str(message[1]) (R3): a JSON string id is echoed exactly, another JSON value as Python's str() of it",
    "served events satisfy C03's admission predicate (lower-case hex id/pubkey/sig, integer created_at/kind, tags = arrays of strings)",
    "LMDB backend runs on the pure-Python lmdb stand-in and pip's vendored msgpack",
]

LOG = logging.getLogger("verif.c04")

C0 = "".join(chr(i) for i in range(32))
HOSTILE = [
    "", "s", 's"2\\', 'a","b', '"', "\\", '\\"', "\\\\", "'", "\n", "\r\n", "\t", "\b\f", "\x00", "a\x00b", "\x01\x1f", C0, "\x7f", "\x80\x9f",
    "  ", "é", "é", "﻿", "�", "\U0001F600", "\U0010FFFF", "a\U00010000b", "퟿", "</script>", "\\u0000",
    "\\ud800", "{}", "[]", "null", "true", "0", "-1", " ", "  a  ", "x" * 4096, ("\"\\\n" * 700), "%s %d {0} {sub_id}", "\\x41", "/", "\\/",
]
HOSTILE_SURR = ["\ud800", "a\udfffb", "\ud83d", "\ude00\ud83d"]      # cannot be hashed/UTF-8 encoded: only for pure string functions


# ----------------------------------------------------------------------------- helpers
def ev_dict(e):
    return {"id": e.id, "pubkey": e.pubkey, "created_at": e.created_at, "kind": e.kind,
            "tags": [list(t) if isinstance(t, (list, tuple)) else t for t in e.tags], "content": e.content, "sig": e.sig}


def event_frame_expected(sub, d):
    return ["EVENT", sub, {"id": d["id"], "created_at": d["created_at"], "pubkey": d["pubkey"], "kind": d["kind"],
                           "sig": d["sig"], "content": d["content"], "tags": [list(t) for t in d["tags"]]}]


def mk_signed(who, kind, created_at, tags, content):
    """signed with the relay's own serialization (aionostr/rapidjson), so that hostile control characters are admitted"""
    from aionostr.event import Event
    e = Event(pubkey=env.PUBS[who], content=content, created_at=created_at, kind=kind, tags=tags)
    e.sign(env.SECRETS[who])
    return e.to_json_object()


def py_loads(raw):
    try:
        return [json.loads(raw)]
    except Exception:
        return None


class NoLimit:
    def is_limited(self, *a, **k):
        return False

    def cleanup(self):
        pass


def wire_safe(v):
    """values the wire format can carry (no floats inside expected values of frames we judge)"""
    return v


# ----------------------------------------------------------------------------- corr:encode-basestring
def suite_encode(tier, rng):
    from nostr_relay import util
    s = Suite("corr:encode-basestring")
    if tier == "quick":
        cps = list(range(0, 0x3000))
        cps += [0xD7FF, 0xD800, 0xDBFF, 0xDC00, 0xDFFF, 0xE000, 0xFFFD, 0xFFFE, 0xFFFF, 0x10000, 0x1F600, 0x10FFFF]
        strata = [(0x3000, 0xD800), (0xD800, 0xE000), (0xE000, 0x10000), (0x10000, 0x20000), (0x20000, 0xE0000), (0xE0000, 0x110000)]
        for lo, hi in strata:
            cps += [rng.randrange(lo, hi) for _ in range(700)]
        s.rule = ("every code point < 0x3000, the surrogate/plane boundaries and a stratified sample of 4200 of the rest, one string each; "
                  "plus random mixed strings; model encode_basestring vs nostr_relay.util.encode_basestring (and json's pure-Python twin), "
                  "model rapidjson escaping vs util.json_dumps (non-surrogates); non-trivial = the string needs an escape")
    else:
        cps = list(range(0, 0x110000))
        s.rule = ("ALL 1,114,112 code points, one string each, plus random mixed strings; model encode_basestring vs "
                  "nostr_relay.util.encode_basestring (and json's pure-Python twin), model rapidjson escaping vs util.json_dumps "
                  "(non-surrogates); non-trivial = the string needs an escape")
    strs = [chr(c) for c in cps]
    pool = [chr(c) for c in list(range(0, 40)) + [92, 127, 128, 0xFF, 0x2028, 0xD800, 0xDFFF, 0xFFFF, 0x10000, 0x1F600, 0x10FFFF]] + list("abc\"\\/ ")
    for _ in range(500 if tier == "quick" else 5000):
        strs.append("".join(rng.choice(pool) for _ in range(rng.randint(0, 24))))
    strs += HOSTILE + HOSTILE_SURR
    B = 2048
    batches = [strs[i:i + B] for i in range(0, len(strs), B)]
    outs = model_batch("c04.enc", [{"strs": b} for b in batches])
    py_enc = json.encoder.py_encode_basestring
    for b, o in zip(batches, outs):
        for x, mp, mr in zip(b, o["py"], o["rj"]):
            real = util.encode_basestring(x)
            esc = real != '"' + x + '"'
            s.case(x if len(x) < 40 else x[:40], nontrivial=esc)
            s.count("needs_escape" if esc else "verbatim")
            if mp != real or mp != py_enc(x):
                s.disagree({"str_cps": [ord(c) for c in x[:50]]}, mp, real)
            try:
                rj = util.json_dumps(x)
            except UnicodeEncodeError:
                s.count("rapidjson_refuses_surrogate")
                continue
            if mr != rj:
                s.disagree({"str_cps": [ord(c) for c in x[:50]], "encoder": "rapidjson"}, mr, rj)
    return s


# ----------------------------------------------------------------------------- corr:parser
def gen_json_text(rng, depth=0):
    r = rng.random()
    ws = lambda: rng.choice(["", "", "", " ", "\n", "\t ", "\r\n"])
    if depth > 3 or r < 0.35:
        k = rng.random()
        if k < 0.35:
            return rng.choice(["0", "-0", "1", "-1", "7", "10", "123456789012345678901234567890", "-9223372036854775808", "18446744073709551616",
                               str(rng.randint(-10 ** 6, 10 ** 6))])
        if k < 0.5:
            return rng.choice(["true", "false", "null"])
        body = ""
        for _ in range(rng.randint(0, 6)):
            body += rng.choice(["a", "é", "\U0001F600", "\\\"", "\\\\", "\\/", "\\b", "\\f", "\\n", "\\r", "\\t", "\\u0041", "\\u00e9", "\\u001F", "\\u001f",
                                "\\ud83d\\ude00", "\\uD83D\\uDE00", "\\ud800", "\\udc00", "\\ud83dx", "\x7f", " ", "\\u0000", "/"])
        return '"' + body + '"'
    if r < 0.7:
        n = rng.randint(0, 4)
        return "[" + ws() + ("," + ws()).join(gen_json_text(rng, depth + 1) + ws() for _ in range(n)) + "]"
    n = rng.randint(0, 3)
    keys = rng.sample(["a", "b", "id", "é", "k\\n", ""], n)
    return "{" + ws() + ",".join(ws() + '"' + k + '"' + ws() + ":" + ws() + gen_json_text(rng, depth + 1) + ws() for k in keys) + "}"


def mutate_text(rng, t):
    if not t:
        return t
    i = rng.randrange(len(t))
    k = rng.random()
    if k < 0.3:
        return t[:i] + t[i + 1:]
    if k < 0.6:
        return t[:i] + rng.choice(['"', "\\", ",", "]", "}", "[", "{", ":", "0", "1", "-", ".", "e", "\x01", "\n", "x", "t", "'"]) + t[i:]
    if k < 0.8:
        return t[:i] + rng.choice(['"', ",", "]", "0", " ", "\\"]) + t[i + 1:]
    return t + rng.choice(["", " ", "x", ",", "]", "1", "\n"])


def suite_parser(tier, rng):
    from nostr_relay import util
    s = Suite("corr:parser")
    s.rule = ("seeded JSON texts of the frame grammar (integers of any size, strings with every escape form incl. surrogate pairs and lone "
              "surrogate escapes, literals, arrays, objects with distinct keys, insignificant whitespace) and single-character mutations of "
              "them; model parse_json vs CPython json.loads (texts with fractions/exponents/NaN are outside the grammar: model must refuse); "
              "non-trivial = the text is a container or was mutated")
    texts = ['["EVENT","s",{"id":"00","created_at":1,"pubkey":"aa","kind":1,"sig":"bb","content":"x","tags":[["e","1"],[]]}]', '["EOSE","s"]',
             '["OK","",false,"invalid: Bad JSON"]', "01", "-", "-01", "1.5", "1e5", "NaN", "[1,]", "[1 2]", '"\t"', '"\\x41"', "", " ", "[", "{", '{"a"}',
             '{"a":1,}', '{"a":1 "b":2}', "[[[[[[[[[[[[[[[[[[[[1]]]]]]]]]]]]]]]]]]]]", '"\\ud83d\\ude00"', '"\\ude00\\ud83d"', "nul", "truee", "[true,false,null]",
             ' [ 1 , 2 ] ', '{"a":{"b":{"c":[]}}}', '"a"b"', '["a"]]', "1 2"]
    n = 1500 if tier == "quick" else 20000
    for _ in range(n):
        t = gen_json_text(rng)
        texts.append(t)
        if rng.random() < 0.5:
            texts.append(mutate_text(rng, t))
    outs = model_batch("c04.parse", texts)
    for t, mo in zip(texts, outs):
        py = py_loads(t)
        outside = False
        if py is not None:
            def has_float(v):
                if isinstance(v, float):
                    return True
                if isinstance(v, list):
                    return any(has_float(x) for x in v)
                if isinstance(v, dict):
                    return any(has_float(x) for x in v.values())
                return False
            outside = has_float(py[0])
        s.case(t[:80], nontrivial=t[:1] in "[{" or py is None)
        s.count("valid" if py is not None else "invalid")
        if outside:
            s.count("outside_grammar_float")
            if mo is not None:
                s.disagree({"text": t}, mo, "refuse (float)")
            continue
        # duplicate keys collapse in Python: compare through the same collapse
        def collapse(v):
            if isinstance(v, dict):
                return {k: collapse(x) for k, x in v.items()}
            if isinstance(v, list):
                return [collapse(x) for x in v]
            return v
        mo2 = None if mo is None else [collapse(mo[0])]
        if mo2 != py:
            s.disagree({"text": t}, mo2, py)
    return s


# ----------------------------------------------------------------------------- corr:frames
def judge_frames(suite, items, label):
    """items: list of (case, raw, expected or None).  expected None: judged against CPython's own reading (shape + agreement only)."""
    cases = []
    for case, raw, expected in items:
        py = py_loads(raw)
        exp = expected if expected is not None else (py[0] if py is not None else None)
        cases.append({"raw": raw, "expected": exp})
    verdicts = model_batch("c04.frame", cases)
    parsed = model_batch("c04.parse", [c["raw"] for c in cases])
    for (case, raw, expected), c, v, mp in zip(items, cases, verdicts, parsed):
        py = py_loads(raw)
        if v != "ok":
            suite.violate(v, dict(case, raw=raw), "%s: frame sent by the relay is not the well-formed frame the property demands (%s)" % (label, v),
                          expected=c["expected"], observed=raw if len(raw) < 600 else raw[:600])
        # CPython must agree with the model's parser on what the text denotes
        if (mp is None) != (py is None) or (mp is not None and mp[0] != py[0]):
            suite.disagree(dict(case, raw=raw[:300]), mp, py)


def gen_tags(rng, wf=True):
    tags = []
    for _ in range(rng.choice([0, 0, 1, 1, 2, 3, 5])):
        name = rng.choice(["e", "p", "t", "d", "'", "\\", '"', "\x00", "é", "\U0001F600", "expiration", "delegation", ""])
        t = [name] + [rng.choice(HOSTILE[:42]) for _ in range(rng.choice([0, 1, 1, 1, 2, 3]))]
        if rng.random() < 0.15:
            # integer tag items are admitted by the relay (its own test-suite stores ["expiration", 1672329427])
            t.append(rng.choice([0, 1, -5, 1672329427, 2 ** 31, 2 ** 53 + 1, 2 ** 63 - 1, -2 ** 63]))
        tags.append(t)
    if not wf:
        kind = rng.random()
        bad = rng.choice([True, False, None, 1.5, 1e100, ["a", 1], [], ["x", ["y"]], [None, True]])
        if kind < 0.7 or not tags:
            tags.append(["e", bad] if rng.random() < 0.7 else [bad])
        else:
            tags[rng.randrange(len(tags))].append(bad)
        if rng.random() < 0.2:
            tags.append("ab")
    return tags


def suite_frames(tier, rng):
    from aionostr.event import Event
    from nostr_relay import util, web
    s = Suite("corr:frames")
    s.rule = ("(1) util.event_as_json on Event objects with hostile subscription ids / contents / tag strings (quotes, backslashes, C0, NUL, DEL, "
              "U+2028, non-BMP, 4 kB strings) incl. the `if event.tags` special case; (2) the same through the real web.send_subscriptions "
              "coroutine incl. EOSE; (3) OK / NOTICE / AUTH shaped frames through util.json_dumps; (4) whole web.start_client sessions on a "
              "real storage with hostile and non-string subscription ids. Every raw frame is parsed by the extracted model parser and must "
              "denote the expected value and shape; CPython json.loads must agree; raw text compared with the model serializer. "
              "non-trivial = the subscription id or some string in the frame needs escaping")
    subs = HOSTILE + ["sub-%d" % i for i in range(3)]
    n = 250 if tier == "quick" else 3000
    evs = []
    for i in range(n):
        d = {"id": "%064x" % rng.getrandbits(256), "pubkey": env.PUBS[i % 4], "created_at": rng.choice([1, 1700000000, 2 ** 31, 2 ** 32 - 1, 2 ** 63 - 1, rng.randrange(1, 2 ** 40)]),
             "kind": rng.choice([0, 1, 3, 5, 7, 10002, 30000, 65535, 2 ** 32 - 1]), "tags": gen_tags(rng), "content": rng.choice(HOSTILE), "sig": "%0128x" % rng.getrandbits(512)}
        evs.append(d)
    # (1) direct
    items, mcases = [], []
    for d in evs:
        sub = rng.choice(subs)
        raw = util.event_as_json(sub, Event(**d))
        items.append(({"path": "event_as_json", "sub": sub, "ev": d}, raw, event_frame_expected(sub, d)))
        mcases.append({"sub": sub, "ev": d})
    mo = model_batch("c04.event", mcases)
    for (case, raw, exp), m in zip(items, mo):
        esc = json.encoder.encode_basestring(case["sub"]) != '"%s"' % case["sub"] or "\\" in raw
        s.case({"sub": case["sub"][:40], "content": case["ev"]["content"][:40], "ntags": len(case["ev"]["tags"])}, nontrivial=esc)
        s.count("event_frame")
        if m["raw"] != raw:
            s.disagree({"path": "event_as_json raw text", "sub": case["sub"][:200], "ev": {k: (v if k != "content" else v[:200]) for k, v in case["ev"].items()}},
                       (m["raw"] or "")[:300], raw[:300])
    judge_frames(s, items, "util.event_as_json")
    # surrogate subscription ids (cannot come through rapidjson's loads, but str() of nothing forbids them): text level only
    items = []
    for sub in HOSTILE_SURR:
        d = evs[0]
        items.append(({"path": "event_as_json", "sub": sub, "ev": d}, util.event_as_json(sub, Event(**d)), event_frame_expected(sub, d)))
        s.case({"sub_cps": [ord(c) for c in sub]})
        s.count("event_frame_surrogate_sub")
    judge_frames(s, items, "util.event_as_json")

    # (2) through send_subscriptions
    async def drive(batch):
        sent = []
        q = asyncio.Queue()
        for it in batch:
            q.put_nowait(it)

        async def ws_send(m):
            sent.append(m)
        task = asyncio.create_task(web.send_subscriptions(q.get, ws_send, LOG))
        for _ in range(3 * len(batch) + 20):
            await asyncio.sleep(0)
        task.cancel()
        await asyncio.gather(task, return_exceptions=True)
        return sent
    batch, expect = [], []
    for d in evs[: (120 if tier == "quick" else 800)]:
        sub = rng.choice(subs)
        batch.append((sub, Event(**d)))
        expect.append(({"path": "send_subscriptions", "sub": sub, "ev": d}, event_frame_expected(sub, d)))
        if rng.random() < 0.5:
            batch.append((sub, None))
            expect.append(({"path": "send_subscriptions", "sub": sub, "eose": True}, ["EOSE", sub]))
    for sub in subs:
        batch.append((sub, None))
        expect.append(({"path": "send_subscriptions", "sub": sub, "eose": True}, ["EOSE", sub]))
    sent = env.run(drive(batch))
    if len(sent) != len(batch):
        s.disagree({"path": "send_subscriptions"}, "%d frames" % len(batch), "%d frames" % len(sent))
    else:
        items = [(c, raw, exp) for (c, exp), raw in zip(expect, sent)]
        for c, raw, exp in items:
            s.case({"sub": c["sub"][:40], "eose": c.get("eose", False)}, nontrivial="\\" in raw)
            s.count("eose_frame" if c.get("eose") else "event_frame_via_sender")
        judge_frames(s, items, "web.send_subscriptions")
        eo = [(c, raw) for c, raw, _ in items if c.get("eose")]
        # the model has both escaping styles of the id; the text must be one of them
        mo = model_batch("c04.eose", [{"sub": c["sub"], "upper": True} for c, _ in eo])
        mo2 = model_batch("c04.eose", [{"sub": c["sub"], "upper": False} for c, _ in eo])
        for (c, raw), a, b in zip(eo, mo, mo2):
            if raw not in (a["raw"], b["raw"]):
                s.disagree({"path": "EOSE raw text", "sub": c["sub"][:200]}, a["raw"][:300], raw[:300])

    # (3) json_dumps frames
    items = []
    for x in HOSTILE:
        for fr in (["OK", x, False, "invalid: " + x], ["OK", "%064x" % 5, True, ""], ["NOTICE", x], ["AUTH", x]):
            raw = util.json_dumps(fr)
            items.append(({"path": "json_dumps", "frame": fr}, raw, fr))
            s.case({"frame": [str(y)[:30] for y in fr]}, nontrivial="\\" in raw)
            s.count("dumps_frame")
    judge_frames(s, items, "util.json_dumps")
    mo = model_batch("c04.print", [{"v": c["frame"], "upper": True} for c, _, _ in items])
    for (c, raw, _), m in zip(items, mo):
        if m != raw:
            s.disagree({"path": "json_dumps raw text", "frame": [str(y)[:100] for y in c["frame"]]}, m[:300], raw[:300])
    return s


# ----------------------------------------------------------------------------- sessions through start_client
async def session(st, messages, settle=0.4):
    """Run web.start_client on scripted client messages (JSON texts); returns the raw frames sent."""
    import falcon
    from nostr_relay import web
    sent = []
    msgs = list(messages)

    async def ws_send(m):
        sent.append(m)

    async def ws_recv():
        if msgs:
            return msgs.pop(0)
        # wait until the relay has nothing more to say
        last, quiet = -1, 0
        for _ in range(int(settle / 0.01) * 10):
            await env.quiesce(st)
            await asyncio.sleep(0.01)
            if len(sent) == last:
                quiet += 1
                if quiet >= int(settle / 0.01):
                    break
            else:
                last, quiet = len(sent), 0
        raise falcon.WebSocketDisconnected()

    async def ws_close(code=1000):
        sent.append("CLOSED:%s" % code)
    await web.start_client(st, ws_send, ws_recv, ws_close, LOG, rate_limiter=NoLimit(), remote_addr="1.2.3.4")
    return sent


SUB_IDS_JSON = ['"s"', '"s\\"2\\\\"', '"a\\",\\"b"', '"\\u0000"', '"\\n"', '"\\u001f\\u007f"', '"\\ud83d\\ude00"', '"é"', '""', '"' + "x" * 300 + '"',
                "1", "-5", "1.5", "true", "false", "null", '["a","b"]', '{"a":1}', "[]", '[["x"]]', '"\\\\"', '"</script>"', '"\\u2028"', '" "',
                # strings a JSON library may be tempted to read as something else (dates, times, UUIDs, numbers)
                '"2024-05-01T10:00:00.000Z"', '"2024-05-01T10:00:00+02:00"', '"10:00:00.5"', '"2024-05-01"', '"6F9619FF-8B86-D011-B42D-00C04FC964FF"',
                '"6f9619ff-8b86-d011-b42d-00c04fc964ff"', '"1e5"', '"NaN"', '"Infinity"', '"0x10"']


def suite_sessions(tier, rng):
    s = Suite("corr:frames-session")
    s.rule = ("whole web.start_client sessions on real storages (both backends) holding hostile events: REQ with every subscription id of the "
              "list (JSON strings with quotes/backslashes/controls/non-BMP, numbers, booleans, null, arrays, objects), CLOSE, EVENT submissions "
              "(valid, duplicate, forged, garbage), unknown commands; every frame sent must have one of the five shapes; EVENT/EOSE frames must "
              "carry exactly str(message[1]) and the stored events; json.loads must agree with the model parser; non-trivial = id needs escaping")
    env.patch_web_sleep()

    async def run_backend(backend):
        sc = env.Scratch()
        out = []
        try:
            env.load_config()
            st = await (env.sql_storage(sc) if backend == "sql" else env.kv_storage(sc))
            try:
                stored = []
                for i, content in enumerate(['q"uote', "back\\slash", "nl\nctl\x01", "\U0001F600", "plain"]):
                    e = mk_signed(i % 4, 1, env.NOW - i, [["t", content], ["e", "00" * 32]], content)
                    await st.add_event(dict(e))
                    stored.append(e)
                await env.quiesce(st)
                stored.sort(key=lambda e: -e["created_at"])
                for sub_json in SUB_IDS_JSON:
                    sub = json.loads(sub_json)
                    sub_str = sub if isinstance(sub, str) else str(sub)
                    msgs = ['["REQ",%s,{"kinds":[1]}]' % sub_json]
                    frames = await session(st, msgs)
                    out.append((backend, sub_json, sub_str, msgs, frames, stored))
                # OK / NOTICE frames
                good = mk_signed(1, 1, env.NOW, [["t", 'x"y']], "ok\nframe")
                forged = dict(good, content="changed")
                rep = mk_signed(2, 10002, env.NOW - 3, [["r", "wss://x"]], "relay list")
                par = mk_signed(2, 30023, env.NOW - 3, [["d", "a"]], "article 2024-05-01T10:00:00.000Z 6F9619FF-8B86-D011-B42D-00C04FC964FF")
                msgs = [json.dumps(["EVENT", good]), json.dumps(["EVENT", good]), json.dumps(["EVENT", forged]), '["EVENT",{"id":5}]', '["EVENT","x"]',
                        json.dumps(["EVENT", rep]), json.dumps(["EVENT", rep]), json.dumps(["EVENT", par]), json.dumps(["EVENT", par]), json.dumps(["EVENT", rep]),
                        '["REQ","s",5]', '["REQ","s",{"kinds":"x"}]', '["CLOSE","nope"]', '["BOGUS",1]', "not json", '["REQ"]',
                        '["REQ","t",{"ids":["zz"]}]', '["EVENT",{"id":"%s","pubkey":"%s","created_at":1,"kind":1,"tags":[],"content":"x","sig":"%s"}]' % ("0" * 64, "1" * 64, "2" * 128)]
                frames = await session(st, msgs)
                out.append((backend, None, None, msgs, frames, stored))
            finally:
                await env.close(st)
        finally:
            sc.close()
        return out
    for backend in ("sql", "kv"):
        res = env.run(run_backend(backend))
        for backend, sub_json, sub_str, msgs, frames, stored in res:
            items = []
            if sub_json is not None:
                esc = json.dumps(sub_str) != '"%s"' % sub_str
                s.case({"backend": backend, "sub_id_json": sub_json[:60]}, nontrivial=esc)
                s.count("req_session_%s" % backend)
                want = [event_frame_expected(sub_str, e) for e in stored] + [["EOSE", sub_str]]
                if len(frames) != len(want):
                    s.violate("missing-or-extra-frame", {"backend": backend, "messages": msgs},
                              "REQ answered with %d frames, expected %d (5 stored events + EOSE)" % (len(frames), len(want)), expected=len(want), observed=[f[:200] for f in frames])
                    continue
                for raw, exp in zip(frames, want):
                    items.append(({"path": "start_client", "backend": backend, "messages": msgs}, raw, exp))
            else:
                s.case({"backend": backend, "messages": [m[:60] for m in msgs]}, nontrivial=True)
                s.count("ok_notice_session_%s" % backend)
                for raw in frames:
                    if raw.startswith("CLOSED:"):
                        s.violate("connection-closed", {"backend": backend, "messages": msgs}, "the session was closed by the relay (%s)" % raw)
                        continue
                    items.append(({"path": "start_client", "backend": backend, "messages": msgs}, raw, None))
                    pyv = py_loads(raw)
                    if pyv is not None and isinstance(pyv[0], list) and pyv[0][:1] == ["OK"]:
                        fr = pyv[0]
                        if not (len(fr) == 4 and isinstance(fr[1], str) and isinstance(fr[2], bool) and isinstance(fr[3], str)):
                            s.violate("ok-frame-malformed", {"backend": backend, "messages": msgs, "raw": raw},
                                      "an OK frame is not [\"OK\", <event id string>, <true|false>, <message string>]", observed=raw[:300])
                if len(frames) < 6:
                    s.disagree({"backend": backend, "messages": msgs}, ">= 6 OK/NOTICE frames", [f[:100] for f in frames])
            judge_frames(s, items, "web.start_client")
    return s


# ----------------------------------------------------------------------------- corr:roundtrip
def canon_ev(d):
    return {"id": d["id"], "pubkey": d["pubkey"], "created_at": d["created_at"], "kind": d["kind"],
            "tags": [list(t) if isinstance(t, (list, tuple)) else t for t in d["tags"]], "content": d["content"], "sig": d["sig"]}


def reverify(d):
    """id = sha256 of the relay's canonical serialization of the served fields, signature valid for it"""
    import coincurve
    from aionostr.event import Event
    try:
        if Event.compute_id(d["pubkey"], d["created_at"], d["kind"], d["tags"], d["content"]) != d["id"]:
            return "id-mismatch"
        pk = coincurve.PublicKeyXOnly(bytes.fromhex(d["pubkey"]))
        return "ok" if pk.verify(bytes.fromhex(d["sig"]), bytes.fromhex(d["id"])) else "bad-signature"
    except Exception as e:
        return "error:" + type(e).__name__


def gen_roundtrip_events(rng, n, backend):
    evs = []
    for i in range(n):
        ca = rng.choice([env.NOW, env.NOW - 5, 1, 2 ** 31 - 1, 2 ** 31, 2 ** 32 - 1] + ([2 ** 32, 2 ** 53 + 1, 2 ** 63 - 1] if backend == "sql" else []))
        kind = rng.choice([1, 1, 1, 4, 7, 40, 1000, 9999, 65535] + ([2 ** 32 - 1] if backend == "sql" else []))
        tags = gen_tags(rng)
        # keep index keys of the LMDB backend within their limits: long tag values are exercised through content
        tags = [[x if not isinstance(x, str) or len(x) < 200 else x[:150] for x in t] for t in tags]
        tags = [t for t in tags if not (t[0] in ("expiration", "delegation"))]   # their semantics belong to C17 / C03
        content = rng.choice(HOSTILE)
        tags.append(["nonce", str(i)])
        evs.append(mk_signed(i % 4, kind, ca + i if ca in (env.NOW, env.NOW - 5) else ca, tags, content))
    return evs


def nonwf_events(rng):
    """validly signed events whose tags contain non-string items / are not arrays of arrays of strings; events whose hex fields
    are written in upper / mixed case (the signature still verifies: whatever of them is accepted must be served as accepted);
    integers in tags at and beyond the ends of the 64-bit ranges (accepted ones must come back as the same integers)"""
    out = []
    for k, big in enumerate([2 ** 63 - 1, 2 ** 63, 2 ** 64 - 1, 2 ** 64, 10 ** 21, -(2 ** 63), -(2 ** 63) - 1, 10 ** 40]):
        for tags in ([["amount", big]], [["x-big", "v", big]], [["nonce", str(k), big]]):
            try:
                out.append(mk_signed(k % 4, 1, env.NOW - 200 - len(out), tags, "bigint %d" % len(out)))
            except Exception:
                pass
    for k, field in enumerate(["pubkey", "sig", "id", "pubkey", "sig"]):
        e = mk_signed(k % 4, 1, env.NOW - 300 - k, [["t", "case"]], "upper %d" % k)
        e = dict(e)
        e[field] = e[field].upper() if k < 3 else "".join(c.upper() if i % 2 else c for i, c in enumerate(e[field]))
        out.append(e)
    for tags in ([["e", True]], [["e", None]], [["t", ["a", "b"]]], [[1.5]], ["ab"], [["e", "x"], [False]], [[]], [["p", {"a": 1}]]):
        try:
            out.append(mk_signed(0, 1, env.NOW - 50 - len(out), tags, "nonwf %d" % len(out)))
        except Exception:
            pass
    return out


def suite_roundtrip(tier, rng):
    from nostr_relay import util
    s = Suite("corr:roundtrip")
    s.rule = ("validly signed events with hostile contents / tag strings (and, separately, tags holding non-string items) submitted through "
              "storage.add_event on both backends with a live subscriber attached; every ACCEPTED event is then served live, through a stored "
              "REQ (env.req) and through storage.get_event (/e/<id>); served fields must equal the accepted ones (model codec predicts verbatim), "
              "id and signature re-verify, every frame built from a served event must parse under the model parser to the accepted event; "
              "non-trivial = content or a tag needs escaping")
    n = 60 if tier == "quick" else 500

    async def run_backend(backend):
        sc = env.Scratch()
        res = []
        try:
            env.load_config()
            st = await (env.sql_storage(sc) if backend == "sql" else env.kv_storage(sc))
            try:
                q = asyncio.Queue()
                live_client = env.FakeClient("live")
                await st.subscribe(live_client, 'li"ve', [{"since": 1}], q)
                # drain the stored answer (empty store) up to EOSE
                while True:
                    sid, ev = await asyncio.wait_for(q.get(), 10)
                    if ev is None:
                        break
                evs = gen_roundtrip_events(rng, n, backend) + nonwf_events(rng)
                for d in evs:
                    rec = {"backend": backend, "submitted": d, "accepted": False, "live": None, "stored": None, "get": None, "error": None}
                    try:
                        ev, added = await st.add_event(json.loads(json.dumps(d)))
                        rec["accepted"] = bool(added)
                    except Exception as e:
                        rec["error"] = "%s: %s" % (type(e).__name__, str(e)[:80])
                    await env.quiesce(st)
                    for _ in range(50):
                        await asyncio.sleep(0)
                    if rec["accepted"]:
                        try:
                            sid, lev = await asyncio.wait_for(q.get(), 2)
                            rec["live"] = (sid, ev_dict(lev), util.event_as_json(sid, lev))
                        except asyncio.TimeoutError:
                            rec["live"] = None
                        got, outcome = await env.req(st, [{"ids": [d["id"]]}], sub_id='st"ored')
                        rec["stored"] = [(ev_dict(g), util.event_as_json('st"ored', g)) for g in got]
                        try:
                            g = await st.get_event(d["id"])
                            rec["get"] = (ev_dict(g), json.dumps(g.to_json_object(), ensure_ascii=False)) if g else None
                        except Exception as e:
                            rec["get"] = "error:" + type(e).__name__
                    res.append(rec)
            finally:
                await env.close(st)
        finally:
            sc.close()
        return res

    for backend in ("sql", "kv"):
        recs = env.run(run_backend(backend))
        frames, codec_cases, codec_owner = [], [], []
        for r in recs:
            d = r["submitted"]
            wf = all(isinstance(t, list) and len(t) > 0 and all(isinstance(x, str) or type(x) is int for x in t) for t in d["tags"])
            esc = json.dumps(d["content"], ensure_ascii=False) != '"%s"' % d["content"] or any(json.dumps(x, ensure_ascii=False) != '"%s"' % x for t in d["tags"] if isinstance(t, list) for x in t if isinstance(x, str))
            s.case({"backend": backend, "content": d["content"][:40], "tags": str(d["tags"])[:80]}, nontrivial=esc)
            s.count("%s_%s_%s" % (backend, "wf" if wf else "nonstring_tags", "accepted" if r["accepted"] else "refused"))
            canonical_hex = all(d[f] == d[f].lower() for f in ("id", "pubkey", "sig"))
            if not r["accepted"]:
                # refusing a non-canonical event is C03's business; C04 is about what is served of the events that ARE accepted
                storable_ints = all(-(2 ** 63) <= x < 2 ** 64 for tg in d["tags"] if isinstance(tg, list) for x in tg if type(x) is int)
                if wf and canonical_hex and storable_ints:
                    s.disagree({"backend": backend, "event": d}, "accepted", r["error"] or "refused")
                continue
            base = {"backend": backend, "event": d}
            served = []
            if r["live"] is None:
                s.disagree(base, "live push", "none within 2 s")
            else:
                served.append(("live", r["live"][1], r["live"][2], event_frame_expected(r["live"][0], d)))
            if not r["stored"]:
                s.violate("stored-event-not-served", base, "accepted event is not returned by a stored REQ for its id")
            for g, raw in r["stored"] or []:
                served.append(("stored", g, raw, event_frame_expected('st"ored', d)))
            if isinstance(r["get"], tuple):
                served.append(("get_event", r["get"][0], None, None))
                mp = model_batch("c04.parse", [r["get"][1]])[0]
                if mp is None or canon_ev(mp[0]) != canon_ev(d):
                    s.violate("served-event-differs", dict(base, path="get_event"), "GET /e/<id> body does not denote the accepted event", expected=d, observed=r["get"][1][:400])
            else:
                s.violate("served-event-differs", dict(base, path="get_event"), "storage.get_event did not return the accepted event", observed=r["get"])
            for path, g, raw, exp in served:
                if canon_ev(g) != canon_ev(d):
                    s.violate("served-event-differs", dict(base, path=path), "served event is not field-for-field the accepted one", expected=canon_ev(d), observed=canon_ev(g))
                rv = reverify(canon_ev(g))
                if rv != "ok":
                    s.violate("served-event-does-not-verify", dict(base, path=path), "served event fails re-verification: " + rv, observed=canon_ev(g))
                if raw is not None:
                    frames.append((dict(base, path=path), raw, exp))
            if wf:
                codec_cases.append({"ev": d, "now": env.NOW, "path": backend})
                codec_owner.append(d)
        judge_frames(s, frames, "served frame (%s)" % backend)
        for d, m in zip(codec_owner, model_batch("c04.codec", codec_cases)):
            if m is None or canon_ev(m) != canon_ev(d):
                s.disagree({"backend": backend, "event": d, "what": "model codec"}, m, "served verbatim by the implementation")
    return s


def run(tier, seed):
    rng = rng_for(seed, "c04")
    suites = [suite_encode(tier, rng), suite_parser(tier, rng), suite_frames(tier, rng), suite_sessions(tier, rng), suite_roundtrip(tier, rng)]
    from .. import extra as _extra
    _more = [_extra.suite_served_is_signed(tier, seed), _extra.suite_limited_frames(tier, seed)]
    return list(suites) + _more

def replay(payload):
    v = payload["violation"]
    c = v["case"]
    s = Suite("replay")
    from aionostr.event import Event
    from nostr_relay import util
    if c.get("path") == "event_as_json":
        raw = util.event_as_json(c["sub"], Event(**c["ev"]))
        judge_frames(s, [(c, raw, event_frame_expected(c["sub"], c["ev"]))], "util.event_as_json")
    elif c.get("path") == "send_subscriptions":
        from nostr_relay import web

        async def drive():
            sent = []
            q = asyncio.Queue()
            q.put_nowait((c["sub"], None if c.get("eose") else Event(**c["ev"])))

            async def ws_send(m):
                sent.append(m)
            t = asyncio.create_task(web.send_subscriptions(q.get, ws_send, LOG))
            for _ in range(20):
                await asyncio.sleep(0)
            t.cancel()
            await asyncio.gather(t, return_exceptions=True)
            return sent
        sent = env.run(drive())
        exp = ["EOSE", c["sub"]] if c.get("eose") else event_frame_expected(c["sub"], c["ev"])
        judge_frames(s, [(c, sent[0] if sent else "", exp)], "web.send_subscriptions")
    elif c.get("path") == "start_client":
        env.patch_web_sleep()

        async def go():
            sc = env.Scratch()
            try:
                env.load_config()
                st = await (env.sql_storage(sc) if c["backend"] == "sql" else env.kv_storage(sc))
                try:
                    return await session(st, c["messages"])
                finally:
                    await env.close(st)
            finally:
                sc.close()
        frames = env.run(go())
        judge_frames(s, [(c, f, None) for f in frames], "web.start_client")
    elif "event" in c:
        async def go():
            sc = env.Scratch()
            try:
                env.load_config()
                st = await (env.sql_storage(sc) if c["backend"] == "sql" else env.kv_storage(sc))
                try:
                    d = c["event"]
                    try:
                        ev, added = await st.add_event(json.loads(json.dumps(d)))
                    except Exception as e:
                        print("refused:", e)
                        return []
                    await env.quiesce(st)
                    got, _ = await env.req(st, [{"ids": [d["id"]]}], sub_id="r")
                    return [(util.event_as_json("r", g), event_frame_expected("r", d)) for g in got]
                finally:
                    await env.close(st)
            finally:
                sc.close()
        fr = env.run(go())
        judge_frames(s, [(c, raw, exp) for raw, exp in fr], "served frame")
    for x in s.violations:
        print("still failing:", x["cls"], x["what"])
    print("replay:", "FAIL" if s.violations else "pass")
    return 1 if s.violations else 0
