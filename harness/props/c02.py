"""C02 - a REQ returns every matching stored event exactly once when under its limit.  SQL half: harness/sqlm.py, LMDB half: harness/kvm.py (see design.d)."""
from .. import common
from .. import sqlm
from .. import kvm as kvb

ASSUMPTIONS = [
    "SQLite's evaluation of a parsed statement and its atomic commit are trusted (modelled, pinned by correspondence)",
    "py-lmdb behaves like shims/lmdb.py (ordered map, tracked cursors, copy-on-commit write transactions, 511-byte keys)",
    "admitted events are well formed (C03): string/integer tag items, lower-case hex ids",
]


def run(tier, seed):
    common.PID_ALIAS.update({"SQLM": "C02", "KVM": "C02", "RELAY": "C02"})
    from .. import relay, extra
    # the filter the storage layers see must be the filter the client sent (filter validation vs Filt.Model), and what reaches the
    # client before EOSE is what the storage answered (relay traces: REQ replacement, CLOSE, several subscriptions)
    # "when under its limit": which limit the relay applies is part of the statement -> the limit suites of C12 run here too
    return common.drop_foreign(sqlm.suites_c02(tier, seed) + kvb.suites_c02(tier, seed)
                               + sqlm.suites_c12(tier, seed) + kvb.suites_c12(tier, seed)
                               + [relay.suite_validate(tier, seed, pid="C02", entry="filt.validate"),
                                  relay.suite_relay(tier, seed, "sql", n=20 if tier == "quick" else 100, label="answers", pid="C02"),
                                  relay.suite_exhaustive(tier, seed, "sql", pid="C02"), relay.suite_churn(tier, seed, "sql", pid="C02"), extra.suite_colliding_client_ids(tier, seed), extra.suite_simultaneous_reqs(tier, seed)], "C02")


def replay(payload):
    common.PID_ALIAS.update({"SQLM": "C02", "KVM": "C02"})
    v = payload.get("violation") or {}
    suite = str(v.get("suite", ""))
    if suite.startswith("trace:"):
        from .. import relay
        common.PID_ALIAS.update({"RELAY": "C02"})
        return relay.replay(payload, "C02")
    if "sql" in suite:
        return sqlm.replay(payload)
    try:
        return kvb.replay(payload, "C02")
    except TypeError:
        return kvb.replay(payload)
