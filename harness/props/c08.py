"""C08 - only an event's author can delete it (NIP-09).  SQL half: harness/sqlm.py, LMDB half: harness/kvw.py (see design.d)."""
from .. import common
from .. import sqlm
from .. import kvw as kvb

ASSUMPTIONS = [
    "SQLite's evaluation of a parsed statement and its atomic commit are trusted (modelled, pinned by correspondence)",
    "py-lmdb behaves like shims/lmdb.py (ordered map, tracked cursors, copy-on-commit write transactions, 511-byte keys)",
    "admitted events are well formed (C03): string/integer tag items, lower-case hex ids",
]


def run(tier, seed):
    common.PID_ALIAS.update({"SQLM": "C08", "KVW": "C08", "KVM": "C08"})
    from .. import extra
    return common.drop_foreign(sqlm.suites_c08(tier, seed) + kvb.suites_c08(tier, seed)
                               + [extra.suite_removed_unreachable_after_read(tier, seed, ("delete5",)), extra.suite_int_tag_items(tier, seed), extra.suite_replay_after_removal(tier, seed, only_fields=("deletion-of-a-victim",)),
                                  extra.suite_close_drains_queue(tier, seed)], "C08")


def replay(payload):
    common.PID_ALIAS.update({"SQLM": "C08", "KVW": "C08", "KVM": "C08"})
    v = payload.get("violation") or {}
    suite = str(v.get("suite", ""))
    if "sql" in suite:
        return sqlm.replay(payload)
    try:
        return kvb.replay(payload, "C08")
    except TypeError:
        return kvb.replay(payload)
