"""C17 - garbage collection removes expired and ephemeral events and nothing else.  SQL half: harness/sqlm.py, LMDB half: harness/kvw.py (see design.d)."""
from .. import common
from .. import sqlm
from .. import kvw as kvb

ASSUMPTIONS = [
    "SQLite's evaluation of a parsed statement and its atomic commit are trusted (modelled, pinned by correspondence)",
    "py-lmdb behaves like shims/lmdb.py (ordered map, tracked cursors, copy-on-commit write transactions, 511-byte keys)",
    "admitted events are well formed (C03): string/integer tag items, lower-case hex ids",
]


def run(tier, seed):
    common.PID_ALIAS.update({"SQLM": "C17", "KVW": "C17", "KVM": "C17"})
    from .. import extra
    return common.drop_foreign(sqlm.suites_c17(tier, seed) + kvb.suites_c17(tier, seed)
                               + [extra.suite_removed_unreachable_after_read(tier, seed, ("gc",)), extra.suite_gc_lifecycle(tier, seed), extra.suite_two_workers(tier, seed)], "C17")


def replay(payload):
    common.PID_ALIAS.update({"SQLM": "C17", "KVW": "C17", "KVM": "C17"})
    v = payload.get("violation") or {}
    suite = str(v.get("suite", ""))
    if "sql" in suite:
        return sqlm.replay(payload)
    try:
        return kvb.replay(payload, "C17")
    except TypeError:
        return kvb.replay(payload)
