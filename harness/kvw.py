"""LMDB write path (owner: kvwrite): implementation driver for histories of storage-level
operations on a real LMDBStorage + WriterThread running on shims/lmdb.py, the extracted model
(coq/KVW), an independent coherence walker, and the correspondence / oracle suites the
per-property checks C10, C07, C09, C08, C17, C06 call.

One harness step = one storage-level operation followed by writer quiescence:
  {"op":"submit","event":{...},"valid":bool,"now":T,"fault":k|None,"kill":k|None}   LMDBStorage.add_event
  {"op":"del","id":hex,...}                                                          LMDBStorage.delete_event
  {"op":"gc","now":T}                                                                KVGarbageCollector.collect
  {"op":"reindex","index":name,"event":{...}} / {"op":"bulk","index":name,"events":[..]}   writer queue
  {"op":"wadd","event":{...}}   ("add", [event]) put on the writer queue directly (a store written by a bulk loader / older version)
  {"op":"get","id":hex}                                                              LMDBStorage.get_event
observation per step: {"out", "bcast", "txns": [[end, [mutations]]...], "db": [[key, record|None]...]}"""
import hashlib
import itertools
import json

from . import env
from .common import Suite, model_batch, rng_for

PID = ["KVW"]          # which extracted model binary to use (a property check sets its own id)


# ----------------------------------------------------------------------------- environment
class _Clock:
    """stands in for the `time` module inside aionostr.event (Event.__init__: created_at or int(time.time()))"""

    @staticmethod
    def time():
        return env._now()


_installed = [False]


def install():
    if _installed[0]:
        return
    env.load_config()
    env.patch_clock()
    import aionostr.event as ae
    ae.time = _Clock
    _installed[0] = True


def decode_value(v):
    """stored value -> None (b"") or the record as decode_event sees it"""
    if not v:
        return None
    from msgpack import unpackb
    row = unpackb(v, use_list=False)
    return {"id": row[1].hex(), "created_at": row[2], "kind": row[3], "pubkey": row[4].hex(), "content": row[5],
            "tags": [list(t) for t in row[6]], "sig": row[7].hex(), "_version": row[0]}


def canon_record(r):
    if r is None:
        return None
    r = dict(r)
    if r.pop("_version", 1) != 1:
        r["version"] = "bad"
    return r


def canon_db(pairs):
    return [[bytes(k), canon_record(decode_value(v))] for k, v in pairs]


def canon_trace(trace):
    """shim trace -> [[end, [mutation...]], ...] one per write transaction"""
    txns, cur = [], None
    for item in trace:
        if item[0] == "begin":
            cur = []
        elif item[0] == "put":
            cur.append(["put", item[1], canon_record(decode_value(item[2]))])
        elif item[0] == "delete":
            cur.append(["delete", item[1]])
        else:
            txns.append([{"commit": "commit", "abort": "abort", "killed": "killed"}[item[0]], cur])
            cur = None
    if cur is not None:
        txns.append(["open", cur])
    return txns


class Driver:
    """one LMDBStorage on a fresh shim environment"""

    def __init__(self, validators):
        self.validators = validators
        self.st = None
        self.bcasts = []
        self.bcasts_all = []
        self.wedged = False
        self.held = False       # the harness holds the environment's writer lock: the writer thread cannot begin its transaction

    async def open(self):
        import lmdb
        install()
        lmdb.reset_controls()
        self.path = "kvw-%d" % id(self)
        lmdb.wipe(self.path)
        self.st = await env.kv_storage(validators=self.validators, path=self.path)
        st = self.st

        async def notify_all_connected(event):
            self.bcasts.append(event.id)
            self.bcasts_all.append(event.id)
        st.notify_all_connected = notify_all_connected
        return self

    async def close(self):
        import lmdb
        lmdb.reset_controls()
        st = self.st
        if self.held:
            st.db._wlock.release()
            self.held = False
        # never join a writer thread that may be stuck (e.g. on a transaction lock that is never released)
        try:
            st.writer_thread.running = False
            st.writer_queue.put(None)
            st.writer_thread.join(0.2 if self.wedged else 3.0)
            st.query_pool.shutdown(wait=False)
            if not st.writer_thread.is_alive():
                st.db.close()
        except Exception:
            pass
        lmdb.wipe(self.path)

    async def quiesce(self, limit=4.0):
        """bounded wait until the writer has finished every queued operation: its queue is empty, it is not
        processing, and at least one write transaction per queued operation has ended - observed on three
        consecutive polls; False = it never got there"""
        import asyncio
        import lmdb
        import time as _t
        st = self.st
        t0 = _t.monotonic()
        seen = 0
        while _t.monotonic() - t0 < limit:
            if lmdb.WRITE_TXNS_DONE[0] - st._base_done >= st._submitted and st.writer_queue.empty() and not st.writer_thread.processing:
                seen += 1
                if seen >= 3:
                    return True
            else:
                seen = 0
            await asyncio.sleep(0.0004)
        return False

    async def dump(self):
        return canon_db(self.st.db.dump())

    async def step(self, op):
        import lmdb
        from nostr_relay.storage import kv
        from aionostr.event import Event
        st = self.st
        env.set_clock(op.get("now", env.NOW))
        self.bcasts.clear()
        lmdb.reset_controls()
        lmdb.TRACE_ON[0] = True
        if op.get("fault") is not None or op.get("kill") is not None:
            lmdb.arm(fault_at=op.get("fault"), kill_at=op.get("kill"))
        name = op["op"]
        out = None
        hold = bool(op.get("hold"))
        if hold and not self.held:
            st.db._wlock.acquire()
            self.held = True
        if self.wedged:
            return {"out": "writer-wedged", "bcast": False, "txns": [], "db": await self.dump()}
        try:
            if name == "submit":
                try:
                    ev, ok = await st.add_event(json.loads(json.dumps(op["event"])))
                    out = "true" if ok else "duplicate"
                except Exception:
                    out = "raise"
            elif name == "wadd":
                st.writer_queue.put(("add", [Event(**json.loads(json.dumps(op["event"])))]))
                out = "queued"
            elif name == "del":
                await st.delete_event(op["id"])
                out = "queued"
            elif name == "gc":
                gc = kv.KVGarbageCollector(st)
                try:
                    with st.db.begin() as conn:
                        out = await gc.collect(conn)
                except Exception as e:      # noqa  (a pass that aborts is an observation, not a harness failure)
                    out = "raise:" + type(e).__name__
            elif name == "reindex":
                st.writer_queue.put(("reindex", [op["index"], Event(**op["event"])]))
                out = "queued"
            elif name == "bulk":
                st.writer_queue.put(("bulk_update", [op["index"], [Event(**e) if e else None for e in op["events"]]]))
                out = "queued"
            elif name == "get":
                try:
                    e = await st.get_event(op["id"])
                    out = None if e is None else env.ev_obj(e)
                except Exception:
                    out = "raise"
            if not hold:
                if self.held:
                    st.db._wlock.release()
                    self.held = False
                if not await self.quiesce():
                    self.wedged = True
                    out = "writer-wedged"
        finally:
            txns = canon_trace(list(lmdb.TRACE))
            lmdb.reset_controls()
        return {"out": out, "bcast": bool(self.bcasts), "txns": txns, "db": await self.dump()}


async def run_history(ops, validators):
    d = await Driver(validators).open()
    try:
        return [await d.step(op) for op in ops]
    finally:
        await d.close()


async def run_history_all_faults(ops, validators, mode):
    """every k of every operation: before letting an operation through, repeat it with an injected
    engine failure (mode "fault") or kill (mode "kill") at mutation k = 0, 1, ... until k lies
    beyond its last mutation.  Returns (expanded op list, observations)."""
    d = await Driver(validators).open()
    xs, obs = [], []
    try:
        for op in ops:
            if op["op"] in ("gc", "get"):
                xs.append(op)
                obs.append(await d.step(op))
                continue
            k = 0
            while True:
                o = dict(op, **{mode: k})
                b = await d.step(o)
                xs.append(o)
                obs.append(b)
                hit = any(t[0] != "commit" for t in b["txns"])
                if not hit or k > 400 or d.wedged:
                    break
                k += 1
        return xs, obs
    finally:
        await d.close()


# ----------------------------------------------------------------------------- model side
def model_ops(ops):
    return [{k: v for k, v in op.items() if not k.startswith("_")} for op in ops]


def model_histories(histories):
    return model_batch("kvw.hist", [{"ops": model_ops(h)} for h in histories], pid=PID[0])


def check_histories(histories, observations):
    return model_batch("kvw.check", [{"ops": model_ops(h), "obs": o} for h, o in zip(histories, observations)], pid=PID[0])


# ----------------------------------------------------------------------------- independent coherence walker
def _be4(n):
    return n.to_bytes(4, "big")


def expected_entries(rec):
    """index keys of a decoded record, re-derived from the key layout documented at the top of kv.py
    (independent of Index.write / convert)"""
    idb = bytes.fromhex(rec["id"])
    tail = b"\x00" + _be4(rec["created_at"]) + b"\x00" + idb
    pk = bytes.fromhex(rec["pubkey"])
    out = [b"\x01" + _be4(rec["created_at"]) + tail, b"\x02" + _be4(rec["kind"]) + tail, b"\x03" + pk + tail,
           b"\x04" + pk + b"\x00" + _be4(rec["kind"]) + tail]
    for t in rec["tags"]:
        if len(t) >= 2 and (len(t[0]) == 1 or t[0] in ("expiration", "delegation")):
            out.append(b"\x09" + t[0].encode() + b"\x00" + t[1].encode() + tail)
    return out


def walk_coherent(db):
    """-> "ok" or a class name.  db = [[key, record|None], ...] in key order"""
    keys = [k for k, _ in db]
    if keys != sorted(set(keys)):
        return "unsorted-keys"
    if b"\xee" not in keys:
        return "no-tombstone"
    recs = {}
    for k, r in db:
        if k[:1] == b"\x00":
            if r is None or len(k) != 33 or bytes.fromhex(r["id"]) != k[1:]:
                return "bad-primary-record"
            recs[k[1:]] = r
    owned = set()
    for idb, r in recs.items():
        try:
            es = expected_entries(r)
        except Exception:
            return "bad-primary-record"
        for e in es:
            if e not in keys:
                return "record-without-index-entry"
            owned.add(e)
    for k, r in db:
        if k == b"\xee" or k[:1] == b"\x00":
            continue
        if r is not None:
            return "value-under-index-key"
        if k not in owned:
            return "dangling-index-entry" if k[-32:] not in recs else "entry-under-value-the-event-does-not-have"
    return "ok"


# ----------------------------------------------------------------------------- events
KINDS = [0, 1, 3, 5, 7, 10000, 19999, 20000, 29999, 30000, 30001, 39999, 40000]
DVALS = [None, "bare", "", "a", "ab", "abc", "ü"]
AUTHORS = [0, 1, 2]
BIG = [-1, 0, 2 ** 31, 2 ** 32 - 1, 2 ** 32]
HUGE = [2 ** 63, 2 ** 64]


def mk(who, kind, ts, tags, content="", want=None, sign=True):
    """a genuinely signed event; `want` = first byte of the id, obtained by varying the content"""
    tags = [list(t) for t in tags]
    pk = env.PUBS[who]
    n = 0
    while True:
        c = content if (want is None and n == 0) else "%s#%d" % (content, n)
        eid = env.compute_id(pk, ts, kind, tags, c)
        if want is None or eid[:2] == "%02x" % want:
            break
        n += 1
    sig = env.PRIVS[who].sign_schnorr(bytes.fromhex(eid), None).hex() if sign else "00" * 64
    return {"id": eid, "pubkey": pk, "created_at": ts, "kind": kind, "tags": tags, "content": c, "sig": sig}


def signable(ev):
    try:
        json.dumps(ev, ensure_ascii=False).encode("utf-8")
        return True
    except UnicodeEncodeError:
        return False


def is_valid(ev, validators):
    """what the configured validator pipeline answers for an event minted by mk() (independent of the relay)"""
    if not validators:
        return True
    if ev["created_at"] == 0:
        return False            # Event.__init__ replaces 0 by the clock: the signature no longer fits
    if ev["sig"] == "00" * 64 or not signable(ev):
        return False
    if not all(isinstance(t, list) and all(isinstance(x, str) or type(x) is int for x in t) for t in ev["tags"]):
        return False            # admission (C03): tag items are strings or integers, nothing else
    if any(t and t[0] == "delegation" for t in ev["tags"]):
        return False            # unsigned delegation tags fail Event.verify (or make it raise)
    return True


SIGNED = ["nostr_relay.validators.is_signed"]


def d_tags(d):
    if d is None:
        return []
    if d == "bare":
        return [["d"]]
    return [["d", d]]


def tag_value(rng):
    base = rng.choice(["x", "ab", "abc", "a", "", "ab\x00", "\x00", "ü", "\U0001F600", "a b"])
    r = rng.random()
    if r < 0.12:
        n = rng.choice([466, 467, 468, 469, 470, 471, 472, 509, 510, 511, 512, 600])
        return (base + "v" * n)[:n] if n >= len(base) else base
    return base


def gen_tags(rng, stored_ids, now, signed):
    tags = []
    for _ in range(rng.choice([0, 0, 1, 1, 2, 3, 5])):
        r = rng.random()
        if r < 0.25:
            name = rng.choice(["t", "p", "é", "\U0001F600", "t"])
            tags.append([name, tag_value(rng)])
        elif r < 0.40:
            tags.append(["e", rng.choice(stored_ids) if stored_ids and rng.random() < 0.7 else "%064x" % rng.randrange(1 << 40)])
        elif r < 0.55:
            tags.append(["expiration", rng.choice([str(now - 1), str(now), str(now + 1), "999999999", "10000000000", "", "abc", "0123",
                                                  "1e9", "-5", str(now - 100), "0", "1"])])
        elif r < 0.62:
            tags.append([rng.choice(["tt", "title", ""]), "x"])          # not indexable
        elif r < 0.68:
            tags.append([rng.choice(["t", "e", "p"])])                  # bare
        elif r < 0.72 and not signed:
            tags.append(["delegation", "ab" * 32, "kind=1", "cd" * 64])
        elif r < 0.76 and signed:
            # items no admitted event may carry (the index keys of such a tag differ between addition and removal)
            tags.append([rng.choice(["t", "p", "e", "d"]), rng.choice([["x", "y"], ["x"], [], True, None, 1.5, {"a": 1}, [["n"]]])])
        elif r < 0.80 and tags:
            tags.append(list(rng.choice(tags)))                         # duplicate tag
        else:
            tags.append([rng.choice(["t", "x"]), rng.choice(["a", "ab", "abc"]), "extra"])
    return tags


def gen_event(rng, st, now, signed=True):
    """st: generator state {"events": [...]} of events submitted so far"""
    who = rng.choice(AUTHORS)
    kind = rng.choice(KINDS + [1, 1, 10000, 30000, 30000, 5])
    r = rng.random()
    ts = rng.choice([100, 100, 101, 102, 200, 200, 300]) if r < 0.9 else rng.choice(BIG + (HUGE if r > 0.985 else []))
    ids = [e["id"] for e in st["events"]]
    tags = []
    if 30000 <= kind < 40000 or rng.random() < 0.1:
        tags += d_tags(rng.choice(DVALS))
        if rng.random() < 0.15:
            tags += d_tags(rng.choice(DVALS))       # a second d tag
    if kind == 5:
        for _ in range(rng.choice([0, 1, 1, 2, 3])):
            q = rng.random()
            own = [e["id"] for e in st["events"] if e["pubkey"] == env.PUBS[who]]
            foreign = [e["id"] for e in st["events"] if e["pubkey"] != env.PUBS[who]]
            if q < 0.45 and own:
                tags.append(["e", rng.choice(own)])
            elif q < 0.65 and foreign:
                tags.append(["e", rng.choice(foreign)])
            elif q < 0.75:
                tags.append(["e", "%064x" % rng.randrange(1 << 60)])
            elif q < 0.85:
                tags.append(["e", rng.choice(["zz", "abc", "abcde", "", "0g" * 32, (ids[0][:63] if ids else "abc")])])
            elif q < 0.90:
                tags.append(["e"])
            elif q < 0.95 and own:
                tags.append(["e", rng.choice(own).upper()])
            elif tags:
                tags.append(list(tags[-1]))
    tags += gen_tags(rng, ids, now, signed)
    rng.shuffle(tags)
    want = rng.choice([None, None, None, 0x00, 0xFF])
    return mk(who, kind, ts, tags, content=rng.choice(["", "hello", "x" * 40]), want=want)


def gen_history(rng, n, signed=True, now=1000, ops_mix=True):
    st = {"events": []}
    ops = []
    for _ in range(n):
        r = rng.random()
        if st["events"] and r < 0.10:
            ev = rng.choice(st["events"])                      # duplicate at any position
            ops.append({"op": "submit", "event": ev, "valid": is_valid(ev, SIGNED if signed else []), "now": now})
        elif ops_mix and st["events"] and r < 0.14:
            ops.append({"op": "del", "id": rng.choice([rng.choice(st["events"])["id"], "%064x" % rng.randrange(1 << 30), "zz"]), "now": now})
        elif ops_mix and r < 0.20:
            now = now + rng.choice([0, 1, 50])
            ops.append({"op": "gc", "now": now})
        elif ops_mix and st["events"] and r < 0.24:
            ops.append({"op": "get", "id": rng.choice(st["events"])["id"], "now": now})
        elif ops_mix and [e for e in st["events"] if e["created_at"] != 0] and r < 0.28:
            # the argument of a reindex is an event read from the store: created_at 0 is never stored (Event.__init__)
            ev = rng.choice([e for e in st["events"] if e["created_at"] != 0])
            ix = rng.choice(["ids", "created_at", "kinds", "authors", "authorkinds", "tags"])
            if rng.random() < 0.5:
                ops.append({"op": "reindex", "index": ix, "event": ev, "now": now})
            else:
                ops.append({"op": "bulk", "index": ix, "events": [rng.choice([e for e in st["events"] if e["created_at"] != 0] + [None])
                                                                for _ in range(rng.randint(0, 3))], "now": now})
        else:
            ev = gen_event(rng, st, now, signed)
            if signed and rng.random() < 0.04:
                ev = dict(ev, sig="00" * 64)
            st["events"].append(ev)
            ops.append({"op": "submit", "event": ev, "valid": is_valid(ev, SIGNED if signed else []), "now": now})
    return ops


# ----------------------------------------------------------------------------- comparing
def brief_op(op):
    b = {k: v for k, v in op.items() if k not in ("event", "events")}
    if "event" in op:
        e = op["event"]
        b["event"] = {"id": e["id"][:8], "who": env.PUBS.index(e["pubkey"]) if e["pubkey"] in env.PUBS else "?", "kind": e["kind"],
                      "created_at": e["created_at"], "tags": [[(x if len(x) < 24 else x[:8] + "..(%d)" % len(x)) if isinstance(x, str) else x for x in t] for t in e["tags"]]}
    if "events" in op:
        b["events"] = [e and e["id"][:8] for e in op["events"]]
    return b


def first_diff(mo, io):
    for key in ("out", "bcast", "txns", "db"):
        if mo.get(key) != io.get(key):
            a, b = mo.get(key), io.get(key)
            if key in ("db", "txns") and isinstance(a, list) and isinstance(b, list):
                for i in range(max(len(a), len(b))):
                    x = a[i] if i < len(a) else None
                    y = b[i] if i < len(b) else None
                    if x != y:
                        return key, {"index": i, "model": x, "impl": y}
            return key, {"model": a, "impl": b}
    return None, None


def compare_history(suite, ops, mobs, iobs, what=("out", "bcast", "txns", "db")):
    """record the first step at which model and implementation part"""
    for i, (op, mo, io) in enumerate(zip(ops, mobs, iobs)):
        mo2 = {k: mo.get(k) for k in what}
        io2 = {k: io.get(k) for k in what}
        if mo2 != io2:
            key, d = first_diff(mo2, io2)
            suite.disagree({"ops": ops[: i + 1], "step": i, "field": key}, d.get("model"), d.get("impl"))
            return False
    if len(mobs) != len(iobs):
        suite.disagree({"ops": ops, "field": "length"}, len(mobs), len(iobs))
        return False
    return True


# which oracle reports speak for which property (report kind as labelled by kvw.check)
PROPERTY_REPORTS = {
    "C10": ("coherence", "coherence-walker"),
    "C07": ("fault", "coherence", "coherence-walker"),
    "C09": ("replace", "plain"),
    "C08": ("delete",),
    "C17": ("gc", "del"),
    "C06": ("ack", "held"),
    "KVW": ("coherence", "coherence-walker", "fault", "replace", "plain", "delete", "gc", "del", "ack", "unchanged", "held"),
}
# labels that are open findings rather than violations, per property -> classifier name
FINDING_CLASS = {
    ("C06", "engine-failure-after-ack"): "kv_engine_failure_after_ack",
}
# an engine failure injected by the harness is not a defect of the relay outside C06
IGNORED = {("C07", "engine-failure-after-ack"), ("C10", "engine-failure-after-ack"), ("KVW", "engine-failure-after-ack")}


def oracle_history(suite, ops, iobs, reports, prop="KVW"):
    """feed the per-step reports of kvw.check (and the independent walker) to the suite as violations"""
    kinds = PROPERTY_REPORTS[prop]
    for i, (op, io, rep) in enumerate(zip(ops, iobs, reports)):
        labels = [(k, l) for k, l in rep if l != "ok"]
        if io["out"] == "writer-wedged" or any(t[0] == "open" for t in io["txns"]):
            labels.insert(0, ("fault", "writer-wedged-later-operations-not-applied"))
        w = walk_coherent(io["db"])
        coq_coh = dict(rep).get("coherence")
        if w != coq_coh:
            labels.append(("coherence-walker", "walker-says-%s-coq-says-%s" % (w, coq_coh)))
        for kind, lab in labels:
            if kind not in kinds or (prop, lab) in IGNORED:
                continue
            cls = FINDING_CLASS.get((prop, lab), "%s:%s" % (kind, lab))
            suite.violate(cls, {"ops": ops[: i + 1], "step": i, "validators": suite.validators},
                          "%s oracle on the implementation's keyspace after step %d: %s" % (kind, i, lab),
                          expected="ok", observed=lab)
            return False
    return True


def run_batch(suite, histories, validators, prop="KVW", what=("out", "bcast", "txns", "db"), iobs=None):
    """run the histories on the implementation and on the model, diff, evaluate the oracles"""
    suite.validators = list(validators)
    if iobs is None:
        iobs = [env.run(run_history(h, validators)) for h in histories]
    mobs = model_histories(histories)
    reps = check_histories(histories, iobs)
    for h, mo, io, rep in zip(histories, mobs, iobs, reps):
        nt = any(any(t[0] == "commit" and any(m[0] == "delete" for m in t[1]) for t in b["txns"]) for b in io)
        suite.case({"ops": [brief_op(o) for o in h][:8], "n": len(h)}, nontrivial=nt)
        for op, b in zip(h, io):
            suite.count("op_" + op["op"])
            if op["op"] == "submit":
                suite.count("submit_" + str(b["out"]))
                suite.count("kindclass_" + kind_class(op["event"]["kind"]))
            if op.get("fault") is not None:
                suite.count("armed_fault")
            if op.get("kill") is not None:
                suite.count("armed_kill")
            for t in b["txns"]:
                suite.count("txn_" + t[0])
                suite.count("mutations", len(t[1]))
        compare_history(suite, h, mo, io, what)
        oracle_history(suite, h, io, rep, prop)
    return iobs, mobs, reps


def kind_class(k):
    if k in (0, 3) or 10000 <= k < 20000:
        return "replaceable"
    if 30000 <= k < 40000:
        return "param"
    if 20000 <= k < 30000:
        return "ephemeral"
    if k == 5:
        return "deletion"
    return "regular"


# ----------------------------------------------------------------------------- corpus: targeted witnesses
def S(ev, now=1000, signed=True, **kw):
    return dict({"op": "submit", "event": ev, "valid": is_valid(ev, SIGNED if signed else []), "now": now}, **kw)


def corpus():
    """[(name, property, ops)] - each failed on the tree before the fix named in findings.d (kept as regression corpus)"""
    P = 30000
    out = []
    a100 = mk(0, P, 100, [["d", "a"]])
    abc200 = mk(0, P, 200, [["d", "abc"]])
    out.append(("d-substring", "C09", [S(a100), S(abc200)]))
    ab100 = mk(0, P, 100, [["d", "ab"]])
    nod200 = mk(0, P, 200, [["t", "x"]])
    out.append(("d-absent-deletes-all", "C09", [S(a100), S(ab100), S(nod200)]))
    e100 = mk(0, P, 100, [["d", ""]])
    e200 = mk(0, P, 200, [["d", ""]])
    out.append(("d-empty-never-replaces", "C09", [S(e100), S(e200)]))
    bare200 = mk(0, P, 200, [["d"]])
    out.append(("d-bare-is-empty", "C09", [S(e100), S(a100), S(bare200)]))
    nod100 = mk(0, P, 100, [["t", "y"]])
    out.append(("d-absent-is-empty", "C09", [S(nod100), S(a100), S(e200)]))
    two = mk(0, P, 200, [["d", "a"], ["d"]])
    out.append(("d-second-bare", "C09", [S(a100), S(ab100), S(two)]))
    bare_first = mk(0, P, 200, [["d"], ["d", "a"]])
    out.append(("d-first-bare-then-value", "C09", [S(a100), S(e100), S(bare_first)]))
    out.append(("d-first-bare-candidate", "C09", [S(mk(0, P, 100, [["d"], ["d", "a"]])), S(mk(0, P, 200, [["d", "a"]], content="n")), S(e200)]))
    cand_two = mk(0, P, 100, [["d", "zz"], ["d", "a"]])
    out.append(("d-candidate-second-d", "C09", [S(cand_two), S(mk(0, P, 200, [["d", "a"]]))]))
    R = 10000
    out.append(("replace-10-5-7-20", "C09", [S(mk(0, R, t, [["t", "x"]])) for t in (10, 5, 7, 20)]))
    out.append(("replace-ff-id-tie", "C09", [S(mk(0, R, 100, [], want=0xFF)), S(mk(0, R, 100, [], content="n", want=0x00)), S(mk(0, R, 101, []))]))
    out.append(("replace-other-author-kind", "C09", [S(mk(1, R, 50, [])), S(mk(0, R + 1, 50, [])), S(mk(0, 1, 50, [])), S(mk(0, R, 100, []))]))
    # ---- C08
    n1 = mk(0, 1, 100, [["t", "x"]])
    n2 = mk(0, 1, 101, [["t", "y"]])
    f1 = mk(1, 1, 100, [["t", "x"]])
    out.append(("delete-bare-e-first", "C08", [S(n1), S(mk(0, 5, 200, [["e"], ["e", n1["id"]]]))]))
    out.append(("delete-malformed-e", "C08", [S(n1), S(mk(0, 5, 200, [["e", n1["id"]], ["e", "zz"]]))]))
    out.append(("delete-own-foreign-unknown", "C08", [S(n1), S(n2), S(f1), S(mk(0, 5, 200, [["e", n1["id"]], ["e", f1["id"]], ["e", "00" * 32], ["e", n1["id"]]]))]))
    nff = mk(0, 1, 199, [], want=0xFF)
    out.append(("delete-ff-id-at-boundary", "C08", [S(nff), S(mk(0, 5, 200, [["e", nff["id"]]]))]))
    newer = mk(0, 1, 300, [])
    out.append(("delete-newer-and-same-second", "C08", [S(newer), S(mk(0, 1, 200, [], content="s")), S(mk(0, 5, 200, [["e", newer["id"]]]))]))
    # ---- C17
    T = 1001
    for name, val in (("exp-900", "900"), ("exp-1e10", "10000000000"), ("exp-empty", ""), ("exp-999999999", "999999999"),
                      ("exp-T-1", str(T - 1)), ("exp-T", str(T)), ("exp-T+1", str(T + 1)), ("exp-0123", "0123"), ("exp-abc", "abc")):
        out.append((name, "C17", [S(mk(0, 1, 100, [["expiration", val]])), S(mk(1, 1, 100, [["t", "keep"]])), {"op": "gc", "now": T}]))
    out.append(("exp-two-tags", "C17", [S(mk(0, 1, 100, [["expiration", "9999999999"], ["expiration", "5"]])), {"op": "gc", "now": T}]))
    out.append(("ephemeral-boundaries", "C17", [{"op": "wadd", "event": mk(0, k, 100, []), "now": 1000} for k in (19999, 20000, 29999, 30000)] + [{"op": "gc", "now": T}]))
    out.append(("ephemeral-not-stored", "C17", [S(mk(0, 20000, 100, [])), S(mk(0, 29999, 100, [["expiration", "5"]])), {"op": "gc", "now": T}]))
    # ---- C06
    out.append(("dup-acked", "C06", [S(n1), S(n1)]))
    out.append(("created-minus-1", "C06", [S(mk(0, 1, -1, []))]))
    out.append(("created-2^32", "C06", [S(mk(0, 1, 2 ** 32, []))]))
    out.append(("created-2^32-1", "C06", [S(mk(0, 1, 2 ** 32 - 1, []))]))
    out.append(("created-2^64", "C06", [S(mk(0, 1, 2 ** 64, []))]))
    out.append(("kind-2^32", "C06", [S(mk(0, 2 ** 32, 100, []))]))
    out.append(("tag-470", "C06", [S(mk(0, 1, 100, [["t", "v" * 470]]))]))
    out.append(("tag-471", "C06", [S(mk(0, 1, 100, [["t", "v" * 471]]))]))
    out.append(("tag-600-replaceable", "C06", [S(mk(0, R, 100, [])), S(mk(0, R, 200, [["t", "v" * 600]]))]))
    out.append(("delete-malformed-acked", "C06", [S(mk(0, 5, 200, [["e", "nothex"]]))]))
    # a deletion that references an own earlier deletion as well as older notes: all of them go (NIP-09 gives a deletion of a deletion no
    # special effect; whatever is done about it, the notes referenced next to it are removed)
    o1, o2 = mk(0, 1, 100, [["t", "keep?"]], content="older note 1"), mk(0, 1, 110, [], content="older note 2")
    d1 = mk(0, 5, 150, [["e", "%064x" % 5]], content="earlier deletion")
    out.append(("delete-references-deletion", "C08", [S(o1), S(o2), S(d1), S(mk(0, 5, 300, [["e", d1["id"]], ["e", o1["id"]], ["e", o2["id"]]], content="second deletion"))]))
    out.append(("delete-references-deletion-last", "C08", [S(o1), S(d1), S(o2), S(mk(0, 5, 300, [["e", o2["id"]], ["e", o1["id"]], ["e", d1["id"]]], content="second deletion b"))]))
    out.append(("created-0-unsigned-mode", "C06", [S(mk(0, 1, 0, []), signed=False)]))
    # ---- C10
    old = mk(0, R, 100, [["t", "x"]])
    out.append(("reindex-after-replace", "C10", [S(old), S(mk(0, R, 200, [])), {"op": "reindex", "index": "tags", "event": old, "now": 1000}]))
    out.append(("bulk-after-delete", "C10", [S(n1), {"op": "del", "id": n1["id"], "now": 1000}, {"op": "bulk", "index": "kinds", "events": [n1, None], "now": 1000}]))
    big = mk(0, R, 300, [["t", "ok"], ["t", "v" * 600], ["p", "later"]])
    out.append(("wadd-oversize-aborts", "C07", [S(old), {"op": "wadd", "event": big, "now": 1000}, S(n2)]))
    out.append(("wadd-created-2^32-aborts", "C07", [{"op": "wadd", "event": mk(0, 1, 2 ** 32, [["t", "x"]]), "now": 1000}, S(n1)]))
    out.append(("dup-tags-nul-multibyte", "C10", [S(mk(0, 1, 100, [["t", "a"], ["t", "a"], ["é", "ab\x00c"], ["\U0001F600", ""], ["t", "a\x00"]])),
                                                 S(mk(0, 5, 200, [["e", "x"]])), {"op": "gc", "now": T}]))
    return out


def suite_corpus(prop=None, check="KVW"):
    s = Suite("corr:kv-corpus")
    s.rule = ("targeted witnesses of past failures (d-value relations, arrival orders, deletion reference shapes, expiration values around T, "
              "integer / key-size limits, reindex after removal); model vs implementation on every field, plus all oracles")
    items = [c for c in corpus() if prop is None or c[1] == prop]
    for signed in (True, False):
        hs = [ops for name, p, ops in items if all(o.get("valid", True) == is_valid(o["event"], SIGNED if signed else []) for o in ops if o["op"] == "submit")]
        if hs:
            run_batch(s, hs, SIGNED if signed else [], prop=check)
    return s


# ----------------------------------------------------------------------------- suites
def suite_submit(tier, seed, prop="KVW", n_quick=220, n_thorough=3000, label="corr:kv-submit"):
    """random histories over the universes of DESIGN 4.2 / 5.C06 / 5.C10 (signed events, is_signed validator)"""
    s = Suite(label)
    s.rule = ("seeded histories (3-14 steps) of add_event / delete_event / collect / get_event / reindex / bulk_update over 3 authors x kinds "
              "{0,1,3,5,7,10000,19999,20000,29999,30000,30001,39999,40000} x d in {absent,bare,'',a,ab,abc,ue} x timestamps with ties and "
              "-1,0,2^31,2^32-1,2^32,2^63,2^64 x tags (NUL, multi-byte names, duplicates, bare, 0..600-byte values around the 511-byte key "
              "limit, expiration values around the clock) x ids mined to start with 00/ff x deletions referencing own/foreign/unknown/malformed/"
              "upper-case/duplicate ids x resubmissions at any position; real LMDBStorage + WriterThread on the shim vs the extracted model: "
              "acknowledgement, broadcast flag, per-transaction mutation trace and the whole keyspace after every step; every oracle of the "
              "property on the implementation's keyspace; non-trivial = some committed transaction deleted keys")
    rng = rng_for(seed, label)
    n = n_quick if tier == "quick" else n_thorough
    hs = [gen_history(rng, rng.randint(3, 14), signed=True) for _ in range(n)]
    run_batch(s, hs, SIGNED, prop=prop)
    return s


def suite_submit_unsigned(tier, seed, prop="KVW", n_quick=80, n_thorough=800):
    """same with validators = []: exercises Event.__init__'s created_at 0 -> clock and delegation tags"""
    s = Suite("corr:kv-submit-novalidators")
    s.rule = "as corr:kv-submit with validators=[] (created_at 0 replaced by the clock, delegation tags indexed); non-trivial likewise"
    rng = rng_for(seed, "kv-submit-unsigned")
    n = n_quick if tier == "quick" else n_thorough
    hs = [gen_history(rng, rng.randint(3, 12), signed=False) for _ in range(n)]
    run_batch(s, hs, [], prop=prop)
    return s


def suite_fault(tier, seed, mode, prop="KVW", n_quick=22, n_thorough=200):
    """every k of every operation: engine failure ("fault") or process kill ("kill") at mutation k"""
    s = Suite("corr:kv-%s" % mode)
    s.rule = ("histories of 3-7 operations (events with 0-8 indexable tags, superseding 0-3 older versions, deleting 0-3 events); before each "
              "operation is let through it is repeated with an injected %s at mutation k = 0,1,2,... until k is beyond its last mutation; "
              "outcome, trace (begin / mutations / abort|killed|commit) and keyspace compared with the model after every attempt; "
              "non-trivial = some committed transaction deleted keys" % ("engine exception" if mode == "fault" else "process kill (commit dropped)"))
    rng = rng_for(seed, "kv-" + mode)
    n = n_quick if tier == "quick" else n_thorough
    hs, obs = [], []
    for _ in range(n):
        base = gen_fault_history(rng, rng.randint(3, 7))
        xs, ob = env.run(run_history_all_faults(base, SIGNED, mode))
        hs.append(xs)
        obs.append(ob)
    run_batch(s, hs, SIGNED, prop=prop, iobs=obs)
    return s


def gen_fault_history(rng, n):
    """adds that supersede / delete several stored events, many indexable tags"""
    st = {"events": []}
    ops = []
    who = rng.choice(AUTHORS)
    kind = rng.choice([10000, 30000, 0])
    now = 1000
    for i in range(n):
        r = rng.random()
        if r < 0.45:
            tags = [["t", "v%d" % j] for j in range(rng.randint(0, 8))] + d_tags(rng.choice([None, "a", "a", ""]))
            ev = mk(who, kind, rng.choice([100, 101, 102, 103, 200]), tags, content="c%d" % i)
        elif r < 0.65 and st["events"]:
            own = [e["id"] for e in st["events"] if e["pubkey"] == env.PUBS[who]]
            ev = mk(who, 5, 300, [["e", x] for x in rng.sample(own, min(len(own), rng.randint(0, 3)))] + [["e", "zz"]][: rng.randint(0, 1)])
        elif r < 0.75 and st["events"]:
            ops.append({"op": "del", "id": rng.choice(st["events"])["id"], "now": now})
            continue
        elif r < 0.82:
            ops.append({"op": "gc", "now": now})
            continue
        elif r < 0.88 and st["events"]:
            ops.append({"op": "reindex", "index": rng.choice(["tags", "ids", "kinds"]), "event": rng.choice(st["events"]), "now": now})
            continue
        else:
            ev = gen_event(rng, st, now)
        st["events"].append(ev)
        ops.append({"op": "submit", "event": ev, "valid": is_valid(ev, SIGNED), "now": now})
    return ops


def suite_replace_orders(tier, seed, prop="C09"):
    """all arrival orders of every <=3 (thorough: <=4)-event subset sharing an author and a kind"""
    s = Suite("corr:kv-replace-orders")
    s.rule = ("2 authors x kinds {0,3,1,10000,19999,20000,30000,39999,40000} x d in {absent,bare,'',a,ab,abc,ue} x timestamps {100,100,101,102}: "
              "every arrival order of every subset of <=3 events (thorough <=4) of one author+kind, plus one foreign-author / other-kind "
              "bystander that must survive; non-trivial = some committed transaction deleted keys")
    rng = rng_for(seed, "kv-replace-orders")
    hs = []
    kmax = 3 if tier == "quick" else 4
    for kind in [0, 3, 1, 10000, 19999, 30000, 39999, 40000]:
        param = 30000 <= kind < 40000
        dvs = DVALS if param else [None]
        pool = []
        for d in dvs:
            for ts in [100, 100, 101, 102]:
                pool.append(mk(0, kind, ts, d_tags(d) + [["t", "x"]], content="p%d" % len(pool), want=rng.choice([None, None, 0xFF, 0x00])))
        bystanders = [mk(1, kind, 50, d_tags("a" if param else None), content="by1"), mk(0, 1 if kind != 1 else 7, 50, [], content="by2")]
        subsets = []
        if len(pool) <= 4:
            for k in range(1, kmax + 1):
                subsets += list(itertools.combinations(range(len(pool)), k))
        else:
            want = 160 if tier == "quick" else 1500
            for _ in range(want):
                subsets.append(tuple(rng.sample(range(len(pool)), rng.randint(2, kmax))))
        for sub in subsets:
            perms = list(itertools.permutations(sub))
            if len(pool) > 4:
                perms = [rng.choice(perms)] if tier == "quick" else perms[:6]
            for perm in perms:
                hs.append([S(b) for b in bystanders] + [S(pool[i]) for i in perm])
    run_batch(s, hs, SIGNED, prop=prop)
    return s


def suite_delete_matrix(tier, seed, prop="C08"):
    """deletion events referencing every combination of own older / own newer / own same-second / foreign / unknown / malformed /
    duplicate ids, in enumerated arrival orders"""
    s = Suite("corr:kv-delete-matrix")
    s.rule = ("3 authors; a kind-5 event at t=200 referencing a subset of {own older, own newer (t=300), own same second, own at t=199 with id ff.., "
              "foreign, unknown, non-hex, short, upper-case, duplicate, bare}; every arrival order of the deletion among <=4 (thorough <=5) "
              "other events; non-trivial = some committed transaction deleted keys")
    rng = rng_for(seed, "kv-delete-matrix")
    own_old = mk(0, 1, 100, [["t", "x"]], content="old")
    own_new = mk(0, 1, 300, [], content="new")
    own_same = mk(0, 1, 200, [], content="same")
    own_ff = mk(0, 1, 199, [], content="ff", want=0xFF)
    own_00 = mk(0, 30000, 199, [["d", "a"]], content="zero", want=0x00)
    foreign = mk(1, 1, 100, [], content="foreign")
    pool = {"old": own_old, "new": own_new, "same": own_same, "ff": own_ff, "00": own_00, "foreign": foreign}
    refs = {"old": ["e", own_old["id"]], "new": ["e", own_new["id"]], "same": ["e", own_same["id"]], "ff": ["e", own_ff["id"]],
            "00": ["e", own_00["id"]], "foreign": ["e", foreign["id"]], "unknown": ["e", "ab" * 32], "nonhex": ["e", "zz" * 32],
            "short": ["e", "abc"], "upper": ["e", own_old["id"].upper()], "bare": ["e"], "p": ["p", own_old["id"]]}
    names = list(refs)
    hs = []
    n = 150 if tier == "quick" else 2500
    for _ in range(n):
        chosen = rng.sample(names, rng.randint(0, 5))
        if rng.random() < 0.7:
            chosen.append(rng.choice(["old", "ff", "00", "same", "new"]))
        if rng.random() < 0.3 and chosen:
            chosen.append(rng.choice(chosen))           # duplicate reference
        dele = mk(0, 5, 200, [refs[c] for c in chosen], content="del%d" % len(hs))
        present = rng.sample(list(pool), rng.randint(2, 4 if tier == "quick" else 5))
        seq = [pool[p] for p in present]
        pos = rng.randint(0, len(seq))
        seq.insert(pos, dele)
        hs.append([S(e) for e in seq])
    # foreign deletion of every event
    for p, e in pool.items():
        hs.append([S(e), S(mk(2, 5, 400, [["e", e["id"]]], content="foreign-del"))])
    run_batch(s, hs, SIGNED, prop=prop)
    return s


def suite_gc(tier, seed, prop="C17"):
    s = Suite("corr:kv-gc")
    s.rule = ("collect() under the injected clock T on stores mixing kinds {1,19999,20000,29999,30000} (the ephemeral ones written through the "
              "writer queue directly) with expiration values {T-1,T,T+1,10^9-1,10^10,'','abc','0123','1e9','-5',non-ASCII digits,absent, two tags}, interleaved "
              "with further submissions and a second pass; keyspace before/after vs model and the C17 oracle; non-trivial = some commit deleted keys")
    rng = rng_for(seed, "kv-gc")
    hs = []
    n = 120 if tier == "quick" else 1500
    for _ in range(n):
        T = rng.choice([1000, 1001, 999999999, 1000000000, 1700000000])
        vals = [str(T - 1), str(T), str(T + 1), "999999999", "10000000000", "", "abc", "0123", "1e9", "-5", None, "two", "0", str(T - 1) + "\x00",
                "\u0661\u0662\u0663", "\uff11\uff12\uff13", "\u00b2", "1\u0660"]      # Arabic-Indic / fullwidth digits, superscript two: str.isdigit() but not bytes.isdigit()
        ops = []
        for _ in range(rng.randint(1, 6)):
            k = rng.choice([1, 1, 19999, 20000, 29999, 30000, 25000])
            v = rng.choice(vals)
            tags = [] if v is None else ([["expiration", str(T + 5)], ["expiration", str(T - 5)]] if v == "two" else [["expiration", v]])
            if rng.random() < 0.3:
                tags.append(["t", "x"])
            ev = mk(rng.choice(AUTHORS), k, rng.choice([100, 200]), tags, content="g%d" % len(ops))
            if 20000 <= k < 30000 and rng.random() < 0.7:
                ops.append({"op": "wadd", "event": ev, "now": T - 10})
            else:
                ops.append(S(ev, now=T - 10))
        ops.append({"op": "gc", "now": T})
        if rng.random() < 0.5:
            ops.append(S(mk(0, 1, 300, [["expiration", str(T + 1)]], content="late"), now=T))
            ops.append({"op": "gc", "now": T + rng.choice([0, 1, 2])})
        hs.append(ops)
    run_batch(s, hs, SIGNED, prop=prop)
    return s


def suite_inflight(tier, seed, prop="C06"):
    """submissions while the writer thread is held before its transaction (steps with "hold": true), then a release step:
    the same event again, an event and its replacement, an event and its deletion, all still queued"""
    s = Suite("corr:kv-inflight")
    s.rule = ("histories whose first 2-5 steps are submitted while the writer thread is held at its transaction lock (so they only queue), "
              "among them the same event twice, an event and its replacement / deletion, storage.delete_event of a queued id; then a release "
              "step (the writer drains the queue) and sequential resubmissions; acknowledgement, broadcast flag, traces of the drained "
              "transactions and keyspace vs the model with an explicit queue and in-flight set; non-trivial = some commit deleted keys")
    rng = rng_for(seed, "kv-inflight")
    hs = []
    n = 40 if tier == "quick" else 500
    for i in range(n):
        who = rng.choice(AUTHORS)
        kind = rng.choice([1, 10000, 30000, 0])
        a = mk(who, kind, 100, [["t", "x"]] + d_tags("a" if kind == 30000 else None), content="a%d" % i)
        b = mk(who, kind, 200, d_tags("a" if kind == 30000 else None), content="b%d" % i)
        dele = mk(who, 5, 300, [["e", a["id"]]], content="d%d" % i)
        pool = [a, a, b, dele, mk(rng.choice(AUTHORS), 20000, 100, [], content="e%d" % i)]
        ops = []
        for _ in range(rng.randint(2, 5)):
            if rng.random() < 0.12:
                ops.append({"op": "del", "id": a["id"], "now": 1000, "hold": True})
            else:
                ops.append(S(rng.choice(pool), hold=True))
        ops.append({"op": "release", "now": 1000})
        for _ in range(rng.randint(0, 2)):
            ops.append(S(rng.choice(pool)))
        hs.append(ops)
    run_batch(s, hs, SIGNED, prop=prop)
    return s


def suites_all(tier, seed):
    return [suite_corpus(None, "KVW"), suite_submit(tier, seed, "KVW", n_quick=150), suite_submit_unsigned(tier, seed, "KVW", n_quick=50),
            suite_fault(tier, seed, "fault", "KVW"), suite_fault(tier, seed, "kill", "KVW"),
            suite_replace_orders(tier, seed, "KVW"), suite_delete_matrix(tier, seed, "KVW"), suite_gc(tier, seed, "KVW"),
            suite_inflight(tier, seed, "KVW"), suite_concurrent_duplicates(tier, seed, "KVW")]


def suites_c10(tier, seed):
    return [suite_corpus(None, "C10"), suite_submit(tier, seed, "C10", label="corr:kv-coherence"),
            suite_submit_unsigned(tier, seed, "C10"),
            suite_fault(tier, seed, "fault", "C10", n_quick=10), suite_gc(tier, seed, "C10")]


def suites_c07(tier, seed):
    return [suite_corpus(None, "C07"), suite_submit(tier, seed, "C07", n_quick=120, label="corr:kv-txn-trace"),
            suite_fault(tier, seed, "fault", "C07"), suite_fault(tier, seed, "kill", "C07")]


def suites_c09(tier, seed):
    return [suite_corpus("C09", "C09"), suite_replace_orders(tier, seed, "C09"), suite_submit(tier, seed, "C09", n_quick=150)]


def suites_c08(tier, seed):
    return [suite_corpus("C08", "C08"), suite_delete_matrix(tier, seed, "C08"), suite_submit(tier, seed, "C08", n_quick=120)]


def suites_c17(tier, seed):
    return [suite_corpus("C17", "C17"), suite_gc(tier, seed, "C17"), suite_submit(tier, seed, "C17", n_quick=100)]


def suites_c06(tier, seed):
    return [suite_corpus("C06", "C06"), suite_submit(tier, seed, "C06"), suite_submit_unsigned(tier, seed, "C06"),
            suite_fault(tier, seed, "fault", "C06", n_quick=8), suite_inflight(tier, seed, "C06"),
            suite_concurrent_duplicates(tier, seed, "C06")]


# ----------------------------------------------------------------------------- replay
def replay(payload, prop="KVW"):
    """re-run the operation sequence of a recorded violation / disagreement on the implementation and re-evaluate the oracles"""
    v = payload.get("violation") or {}
    case = v.get("case") or (payload.get("first_disagreements") or [{}])[0].get("case") or {}
    ops = case.get("ops")
    if not ops:
        print("replay: nothing to replay")
        return 0
    if case.get("concurrent"):
        s = suite_concurrent_duplicates("quick", 0)
        bad = s.violations
    else:
        s = Suite("replay")
        validators = case.get("validators", SIGNED)
        run_batch(s, [ops], validators, prop=prop)
        bad = s.violations + s.disagreements
    for x in s.violations:
        print("still failing:", x["cls"], x["what"])
    for x in s.disagreements:
        print("model/implementation still disagree at step", x["case"].get("step"), "field", x["case"].get("field"))
    print("replay:", "FAIL" if bad else "pass")
    return 1 if bad else 0


def write_witnesses():
    """(re)create the witness replays of the open findings of findings.d/KVW.txt"""
    import os
    from .common import VERIF, jsonable
    install()
    REPLAYS = os.path.join(VERIF, "findings.d", "witness")
    os.makedirs(REPLAYS, exist_ok=True)
    ev = mk(0, 1, 100, [["t", "x"]], content="witness")
    items = {
        "KVW-engine-failure-after-ack.json": {
            "property": "C06", "kind": "failing-input", "replay": "./check C06 --replay <this file>",
            "violation": {"suite": "corr:kv-fault", "cls": "kv_engine_failure_after_ack",
                          "case": {"ops": [S(ev, fault=0)], "step": 0, "validators": SIGNED},
                          "what": "OK=true and broadcast, then the engine fails at the first mutation of the writer's transaction: the event is not stored",
                          "expected": "stored", "observed": "engine-failure-after-ack"}},
    }
    for name, payload in items.items():
        with open(os.path.join(REPLAYS, name), "w") as f:
            json.dump(jsonable(payload), f, indent=1, sort_keys=True)
    return sorted(items)


def suite_concurrent_duplicates(tier, seed, prop="C06"):
    """k concurrent add_event calls for the same event (asyncio.gather; two clients relaying the same event at the same moment),
    with one live subscriber: exactly one OK=true, one broadcast, one stored record.  Implementation only (oracle)."""
    import asyncio
    s = Suite("corr:kv-concurrent-duplicates")
    s.rule = ("asyncio.gather of k in {2,3,5} add_event calls of one signed event (kinds 1 / 10000 / 30000 / 20000), writer free or held at its "
              "transaction lock, followed by a sequential resubmission; expected: exactly one True, one broadcast, the rest False (all True and one "
              "broadcast each for an ephemeral kind); implementation only")
    s.validators = list(SIGNED)

    async def one(ev, k, held):
        d = await Driver(SIGNED).open()
        try:
            lock = d.st.db._wlock
            if held:
                lock.acquire()
            try:
                async def sub(e):
                    try:
                        _, ok = await d.st.add_event(json.loads(json.dumps(e)))
                        return "true" if ok else "duplicate"
                    except Exception:
                        return "raise"
                outs = list(await asyncio.gather(*[sub(ev) for _ in range(k)]))
            finally:
                if held:
                    lock.release()
            await d.quiesce()
            later = await sub(ev)
            await d.quiesce()
            db = await d.dump()
            return outs, later, len(d.bcasts_all), sum(1 for key, r in db if key[:1] == b"\x00")
        finally:
            await d.close()
    rng = rng_for(seed, "kv-concurrent-duplicates")
    n = 12 if tier == "quick" else 150
    for i in range(n):
        kind = rng.choice([1, 1, 10000, 30000, 20000])
        ev = mk(rng.choice(AUTHORS), kind, 100 + i, [["t", "x"]] + d_tags("a" if kind == 30000 else None), content="conc%d" % i)
        k = rng.choice([2, 3, 5])
        held = rng.random() < 0.5
        outs, later, nb, nrec = env.run(one(ev, k, held))
        eph = 20000 <= kind < 30000
        s.case({"kind": kind, "k": k, "held": held, "outs": outs, "later": later, "broadcasts": nb, "records": nrec}, nontrivial=True)
        s.count("k_%d" % k)
        s.count("held" if held else "free")
        s.count("true_%d" % outs.count("true"))
        want = (["true"] * k, "true", k + 1, 0) if eph else (["true"] + ["duplicate"] * (k - 1), "duplicate", 1, 1)
        got = (sorted(outs, reverse=True), later, nb, nrec)
        if got != want:
            s.violate("kv_duplicate_in_flight", {"ops": [S(ev)] * k, "held": held, "concurrent": k, "validators": SIGNED},
                      "concurrent submissions of one event: more than one OK=true / broadcast", expected=list(want), observed=list(got))
    return s
