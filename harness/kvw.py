"""LMDB write path (owner: kvwrite): implementation driver for histories of storage-level
operations on a real LMDBStorage + WriterThread running on shims/lmdb.py, the extracted model
(coq/KVW), an independent coherence walker, and the correspondence / oracle suites the
per-property checks C10, C07, C09, C08, C17, C06 call.

One harness step = one storage-level operation followed by writer quiescence:
  {"op":"submit","event":{...},"valid":bool,"now":T,"fault":k|None,"kill":k|None}   LMDBStorage.add_event
  {"op":"del","id":hex,...}                                                          LMDBStorage.delete_event
  {"op":"gc","now":T}                                                                KVGarbageCollector.collect
  {"op":"reindex","index":name,"event":{...}} / {"op":"bulk","index":name,"events":[..]}   writer queue
  {"op":"wadd","event":{...}}   ("add", [event]) put on the writer queue directly (a store written by a bulk loader / older version)
  {"op":"get","id":hex}                                                              LMDBStorage.get_event
observation per step: {"out", "bcast", "txns": [[end, [mutations]]...], "db": [[key, record|None]...]}"""
import hashlib
import itertools
import json

from . import env
from .common import Suite, model_batch, rng_for

PID = ["KVW"]          # which extracted model binary to use (a property check sets its own id)


# ----------------------------------------------------------------------------- environment
class _Clock:
    """stands in for the `time` module inside aionostr.event (Event.__init__: created_at or int(time.time()))"""

    @staticmethod
    def time():
        return env._now()


_installed = [False]


def install():
    if _installed[0]:
        return
    env.load_config()
    env.patch_clock()
    import aionostr.event as ae
    ae.time = _Clock
    _installed[0] = True


def decode_value(v):
    """stored value -> None (b"") or the record as decode_event sees it"""
    if not v:
        return None
    from msgpack import unpackb
    row = unpackb(v, use_list=False)
    return {"id": row[1].hex(), "created_at": row[2], "kind": row[3], "pubkey": row[4].hex(), "content": row[5],
            "tags": [list(t) for t in row[6]], "sig": row[7].hex(), "_version": row[0]}


def canon_record(r):
    if r is None:
        return None
    r = dict(r)
    if r.pop("_version", 1) != 1:
        r["version"] = "bad"
    return r


def canon_db(pairs):
    return [[bytes(k), canon_record(decode_value(v))] for k, v in pairs]


def canon_trace(trace):
    """shim trace -> [[end, [mutation...]], ...] one per write transaction"""
    txns, cur = [], None
    for item in trace:
        if item[0] == "begin":
            cur = []
        elif item[0] == "put":
            cur.append(["put", item[1], canon_record(decode_value(item[2]))])
        elif item[0] == "delete":
            cur.append(["delete", item[1]])
        else:
            txns.append([{"commit": "commit", "abort": "abort", "killed": "killed"}[item[0]], cur])
            cur = None
    if cur is not None:
        txns.append(["open", cur])
    return txns


class Driver:
    """one LMDBStorage on a fresh shim environment"""

    def __init__(self, validators):
        self.validators = validators
        self.st = None
        self.bcasts = []

    async def open(self):
        import lmdb
        install()
        lmdb.reset_controls()
        self.path = "kvw-%d" % id(self)
        lmdb.wipe(self.path)
        self.st = await env.kv_storage(validators=self.validators, path=self.path)
        st = self.st

        async def notify_all_connected(event):
            self.bcasts.append(event.id)
        st.notify_all_connected = notify_all_connected
        return self

    async def close(self):
        import lmdb
        lmdb.reset_controls()
        await env.close(self.st)
        lmdb.wipe(self.path)

    async def dump(self):
        return canon_db((await env.dump(self.st))["kv"])

    async def step(self, op):
        import lmdb
        from nostr_relay.storage import kv
        from aionostr.event import Event
        st = self.st
        env.set_clock(op.get("now", env.NOW))
        self.bcasts.clear()
        lmdb.reset_controls()
        lmdb.TRACE_ON[0] = True
        if op.get("fault") is not None or op.get("kill") is not None:
            lmdb.arm(fault_at=op.get("fault"), kill_at=op.get("kill"))
        name = op["op"]
        out = None
        try:
            if name == "submit":
                try:
                    ev, ok = await st.add_event(json.loads(json.dumps(op["event"])))
                    out = "true" if ok else "duplicate"
                except Exception:
                    out = "raise"
            elif name == "wadd":
                st.writer_queue.put(("add", [Event(**json.loads(json.dumps(op["event"])))]))
                out = "queued"
            elif name == "del":
                await st.delete_event(op["id"])
                out = "queued"
            elif name == "gc":
                gc = kv.KVGarbageCollector(st)
                with st.db.begin() as conn:
                    out = await gc.collect(conn)
            elif name == "reindex":
                st.writer_queue.put(("reindex", [op["index"], Event(**op["event"])]))
                out = "queued"
            elif name == "bulk":
                st.writer_queue.put(("bulk_update", [op["index"], [Event(**e) if e else None for e in op["events"]]]))
                out = "queued"
            elif name == "get":
                try:
                    e = await st.get_event(op["id"])
                    out = None if e is None else env.ev_obj(e)
                except Exception:
                    out = "raise"
            await env.quiesce(st)
        finally:
            txns = canon_trace(list(lmdb.TRACE))
            lmdb.reset_controls()
        return {"out": out, "bcast": bool(self.bcasts), "txns": txns, "db": await self.dump()}


async def run_history(ops, validators):
    d = await Driver(validators).open()
    try:
        return [await d.step(op) for op in ops]
    finally:
        await d.close()


async def run_history_all_faults(ops, validators, mode):
    """every k of every operation: before letting an operation through, repeat it with an injected
    engine failure (mode "fault") or kill (mode "kill") at mutation k = 0, 1, ... until k lies
    beyond its last mutation.  Returns (expanded op list, observations)."""
    d = await Driver(validators).open()
    xs, obs = [], []
    try:
        for op in ops:
            if op["op"] in ("gc", "get"):
                xs.append(op)
                obs.append(await d.step(op))
                continue
            k = 0
            while True:
                o = dict(op, **{mode: k})
                b = await d.step(o)
                xs.append(o)
                obs.append(b)
                hit = any(t[0] != "commit" for t in b["txns"])
                if not hit or k > 400:
                    break
                k += 1
        return xs, obs
    finally:
        await d.close()


# ----------------------------------------------------------------------------- model side
def model_ops(ops):
    return [{k: v for k, v in op.items() if not k.startswith("_")} for op in ops]


def model_histories(histories):
    return model_batch("kvw.hist", [{"ops": model_ops(h)} for h in histories], pid=PID[0])


def check_histories(histories, observations):
    return model_batch("kvw.check", [{"ops": model_ops(h), "obs": o} for h, o in zip(histories, observations)], pid=PID[0])


# ----------------------------------------------------------------------------- independent coherence walker
def _be4(n):
    return n.to_bytes(4, "big")


def expected_entries(rec):
    """index keys of a decoded record, re-derived from the key layout documented at the top of kv.py
    (independent of Index.write / convert)"""
    idb = bytes.fromhex(rec["id"])
    tail = b"\x00" + _be4(rec["created_at"]) + b"\x00" + idb
    pk = bytes.fromhex(rec["pubkey"])
    out = [b"\x01" + _be4(rec["created_at"]) + tail, b"\x02" + _be4(rec["kind"]) + tail, b"\x03" + pk + tail,
           b"\x04" + pk + b"\x00" + _be4(rec["kind"]) + tail]
    for t in rec["tags"]:
        if len(t) >= 2 and (len(t[0]) == 1 or t[0] in ("expiration", "delegation")):
            out.append(b"\x09" + t[0].encode() + b"\x00" + t[1].encode() + tail)
    return out


def walk_coherent(db):
    """-> "ok" or a class name.  db = [[key, record|None], ...] in key order"""
    keys = [k for k, _ in db]
    if keys != sorted(set(keys)):
        return "unsorted-keys"
    if b"\xee" not in keys:
        return "no-tombstone"
    recs = {}
    for k, r in db:
        if k[:1] == b"\x00":
            if r is None or len(k) != 33 or bytes.fromhex(r["id"]) != k[1:]:
                return "bad-primary-record"
            recs[k[1:]] = r
    owned = set()
    for idb, r in recs.items():
        try:
            es = expected_entries(r)
        except Exception:
            return "bad-primary-record"
        for e in es:
            if e not in keys:
                return "record-without-index-entry"
            owned.add(e)
    for k, r in db:
        if k == b"\xee" or k[:1] == b"\x00":
            continue
        if r is not None:
            return "value-under-index-key"
        if k not in owned:
            return "dangling-index-entry" if k[-32:] not in recs else "entry-under-value-the-event-does-not-have"
    return "ok"


# ----------------------------------------------------------------------------- events
KINDS = [0, 1, 3, 5, 7, 10000, 19999, 20000, 29999, 30000, 30001, 39999, 40000]
DVALS = [None, "bare", "", "a", "ab", "abc", "ü"]
AUTHORS = [0, 1, 2]
BIG = [-1, 0, 2 ** 31, 2 ** 32 - 1, 2 ** 32]
HUGE = [2 ** 63, 2 ** 64]


def mk(who, kind, ts, tags, content="", want=None, sign=True):
    """a genuinely signed event; `want` = first byte of the id, obtained by varying the content"""
    tags = [list(t) for t in tags]
    pk = env.PUBS[who]
    n = 0
    while True:
        c = content if (want is None and n == 0) else "%s#%d" % (content, n)
        eid = env.compute_id(pk, ts, kind, tags, c)
        if want is None or eid[:2] == "%02x" % want:
            break
        n += 1
    sig = env.PRIVS[who].sign_schnorr(bytes.fromhex(eid), None).hex() if sign else "00" * 64
    return {"id": eid, "pubkey": pk, "created_at": ts, "kind": kind, "tags": tags, "content": c, "sig": sig}


def signable(ev):
    try:
        json.dumps(ev, ensure_ascii=False).encode("utf-8")
        return True
    except UnicodeEncodeError:
        return False


def is_valid(ev, validators):
    """what the configured validator pipeline answers for an event minted by mk() (independent of the relay)"""
    if not validators:
        return True
    if ev["created_at"] == 0:
        return False            # Event.__init__ replaces 0 by the clock: the signature no longer fits
    if ev["sig"] == "00" * 64 or not signable(ev):
        return False
    if any(t and t[0] == "delegation" for t in ev["tags"]):
        return False            # unsigned delegation tags fail Event.verify (or make it raise)
    return True


SIGNED = ["nostr_relay.validators.is_signed"]


def d_tags(d):
    if d is None:
        return []
    if d == "bare":
        return [["d"]]
    return [["d", d]]


def tag_value(rng):
    base = rng.choice(["x", "ab", "abc", "a", "", "ab\x00", "\x00", "ü", "\U0001F600", "a b"])
    r = rng.random()
    if r < 0.12:
        n = rng.choice([466, 467, 468, 469, 470, 471, 472, 509, 510, 511, 512, 600])
        return (base + "v" * n)[:n] if n >= len(base) else base
    return base


def gen_tags(rng, stored_ids, now, signed):
    tags = []
    for _ in range(rng.choice([0, 0, 1, 1, 2, 3, 5])):
        r = rng.random()
        if r < 0.25:
            name = rng.choice(["t", "p", "é", "\U0001F600", "t"])
            tags.append([name, tag_value(rng)])
        elif r < 0.40:
            tags.append(["e", rng.choice(stored_ids) if stored_ids and rng.random() < 0.7 else "%064x" % rng.randrange(1 << 40)])
        elif r < 0.55:
            tags.append(["expiration", rng.choice([str(now - 1), str(now), str(now + 1), "999999999", "10000000000", "", "abc", "0123",
                                                  "1e9", "-5", str(now - 100), "0", "1"])])
        elif r < 0.62:
            tags.append([rng.choice(["tt", "title", ""]), "x"])          # not indexable
        elif r < 0.68:
            tags.append([rng.choice(["t", "e", "p"])])                  # bare
        elif r < 0.72 and not signed:
            tags.append(["delegation", "ab" * 32, "kind=1", "cd" * 64])
        elif r < 0.80 and tags:
            tags.append(list(rng.choice(tags)))                         # duplicate tag
        else:
            tags.append([rng.choice(["t", "x"]), rng.choice(["a", "ab", "abc"]), "extra"])
    return tags


def gen_event(rng, st, now, signed=True):
    """st: generator state {"events": [...]} of events submitted so far"""
    who = rng.choice(AUTHORS)
    kind = rng.choice(KINDS + [1, 1, 10000, 30000, 30000, 5])
    r = rng.random()
    ts = rng.choice([100, 100, 101, 102, 200, 200, 300]) if r < 0.9 else rng.choice(BIG + (HUGE if r > 0.985 else []))
    ids = [e["id"] for e in st["events"]]
    tags = []
    if 30000 <= kind < 40000 or rng.random() < 0.1:
        tags += d_tags(rng.choice(DVALS))
        if rng.random() < 0.15:
            tags += d_tags(rng.choice(DVALS))       # a second d tag
    if kind == 5:
        for _ in range(rng.choice([0, 1, 1, 2, 3])):
            q = rng.random()
            own = [e["id"] for e in st["events"] if e["pubkey"] == env.PUBS[who]]
            foreign = [e["id"] for e in st["events"] if e["pubkey"] != env.PUBS[who]]
            if q < 0.45 and own:
                tags.append(["e", rng.choice(own)])
            elif q < 0.65 and foreign:
                tags.append(["e", rng.choice(foreign)])
            elif q < 0.75:
                tags.append(["e", "%064x" % rng.randrange(1 << 60)])
            elif q < 0.85:
                tags.append(["e", rng.choice(["zz", "abc", "abcde", "", "0g" * 32, (ids[0][:63] if ids else "abc")])])
            elif q < 0.90:
                tags.append(["e"])
            elif q < 0.95 and own:
                tags.append(["e", rng.choice(own).upper()])
            elif tags:
                tags.append(list(tags[-1]))
    tags += gen_tags(rng, ids, now, signed)
    rng.shuffle(tags)
    want = rng.choice([None, None, None, 0x00, 0xFF])
    return mk(who, kind, ts, tags, content=rng.choice(["", "hello", "x" * 40]), want=want)


def gen_history(rng, n, signed=True, now=1000, ops_mix=True):
    st = {"events": []}
    ops = []
    for _ in range(n):
        r = rng.random()
        if st["events"] and r < 0.10:
            ev = rng.choice(st["events"])                      # duplicate at any position
            ops.append({"op": "submit", "event": ev, "valid": is_valid(ev, SIGNED if signed else []), "now": now})
        elif ops_mix and st["events"] and r < 0.14:
            ops.append({"op": "del", "id": rng.choice([rng.choice(st["events"])["id"], "%064x" % rng.randrange(1 << 30), "zz"]), "now": now})
        elif ops_mix and r < 0.20:
            now = now + rng.choice([0, 1, 50])
            ops.append({"op": "gc", "now": now})
        elif ops_mix and st["events"] and r < 0.24:
            ops.append({"op": "get", "id": rng.choice(st["events"])["id"], "now": now})
        elif ops_mix and st["events"] and r < 0.28:
            ev = rng.choice(st["events"])
            ix = rng.choice(["ids", "created_at", "kinds", "authors", "authorkinds", "tags"])
            if rng.random() < 0.5:
                ops.append({"op": "reindex", "index": ix, "event": ev, "now": now})
            else:
                ops.append({"op": "bulk", "index": ix, "events": [rng.choice(st["events"] + [None]) for _ in range(rng.randint(0, 3))], "now": now})
        else:
            ev = gen_event(rng, st, now, signed)
            if signed and rng.random() < 0.04:
                ev = dict(ev, sig="00" * 64)
            st["events"].append(ev)
            ops.append({"op": "submit", "event": ev, "valid": is_valid(ev, SIGNED if signed else []), "now": now})
    return ops


# ----------------------------------------------------------------------------- comparing
def brief_op(op):
    b = {k: v for k, v in op.items() if k not in ("event", "events")}
    if "event" in op:
        e = op["event"]
        b["event"] = {"id": e["id"][:8], "who": env.PUBS.index(e["pubkey"]) if e["pubkey"] in env.PUBS else "?", "kind": e["kind"],
                      "created_at": e["created_at"], "tags": [[x if len(x) < 24 else x[:8] + "..(%d)" % len(x) for x in t] for t in e["tags"]]}
    if "events" in op:
        b["events"] = [e and e["id"][:8] for e in op["events"]]
    return b


def first_diff(mo, io):
    for key in ("out", "bcast", "txns", "db"):
        if mo.get(key) != io.get(key):
            a, b = mo.get(key), io.get(key)
            if key in ("db", "txns") and isinstance(a, list) and isinstance(b, list):
                for i in range(max(len(a), len(b))):
                    x = a[i] if i < len(a) else None
                    y = b[i] if i < len(b) else None
                    if x != y:
                        return key, {"index": i, "model": x, "impl": y}
            return key, {"model": a, "impl": b}
    return None, None


def compare_history(suite, ops, mobs, iobs, what=("out", "bcast", "txns", "db")):
    """record the first step at which model and implementation part"""
    for i, (op, mo, io) in enumerate(zip(ops, mobs, iobs)):
        mo2 = {k: mo.get(k) for k in what}
        io2 = {k: io.get(k) for k in what}
        if mo2 != io2:
            key, d = first_diff(mo2, io2)
            suite.disagree({"ops": ops[: i + 1], "step": i, "field": key}, d.get("model"), d.get("impl"))
            return False
    if len(mobs) != len(iobs):
        suite.disagree({"ops": ops, "field": "length"}, len(mobs), len(iobs))
        return False
    return True


# classes of oracle failures -> property
REPORT_PROPERTY = {
    0: "C10",
}


def oracle_history(suite, ops, iobs, reports, only=None, prefix=""):
    """feed the per-step reports of kvw.check (and the independent walker) to the suite as violations"""
    ok = True
    for i, (op, io, rep) in enumerate(zip(ops, iobs, reports)):
        w = walk_coherent(io["db"])
        labels = []
        if rep[0] != "ok":
            labels.append(("coherence", rep[0]))
        if w != "ok" and w != rep[0]:
            labels.append(("coherence-walker", w))
        for r in rep[1:]:
            if r != "ok":
                labels.append(("effect", r))
        for kind, lab in labels:
            if only is not None and not only(kind, lab):
                continue
            ok = False
            suite.violate(prefix + lab, {"ops": ops[: i + 1], "step": i}, "%s oracle on the implementation's keyspace after step %d: %s" % (kind, i, lab),
                          expected="ok", observed=lab)
            return ok
    return ok


def run_batch(suite, histories, validators, tier_label="", what=("out", "bcast", "txns", "db"), only=None):
    """run the histories on the implementation and on the model, diff, evaluate the oracles"""
    iobs = [env.run(run_history(h, validators)) for h in histories]
    mobs = model_histories(histories)
    reps = check_histories(histories, iobs)
    for h, mo, io, rep in zip(histories, mobs, iobs, reps):
        nt = sum(1 for b in io if any(t[0] == "commit" and any(m[0] == "delete" for m in t[1]) for t in b["txns"])) > 0
        suite.case({"ops": [brief_op(o) for o in h][:8], "n": len(h)}, nontrivial=nt)
        for op, b in zip(h, io):
            suite.count("op_" + op["op"])
            if op["op"] == "submit":
                suite.count("submit_" + str(b["out"]))
                suite.count("kindclass_" + kind_class(op["event"]["kind"]))
            for t in b["txns"]:
                suite.count("txn_" + t[0])
        compare_history(suite, h, mo, io, what)
        oracle_history(suite, h, io, rep, only=only)
    return iobs, mobs, reps


def kind_class(k):
    if k in (0, 3) or 10000 <= k < 20000:
        return "replaceable"
    if 30000 <= k < 40000:
        return "param"
    if 20000 <= k < 30000:
        return "ephemeral"
    if k == 5:
        return "deletion"
    return "regular"


# ----------------------------------------------------------------------------- corpus: targeted witnesses
def S(ev, now=1000, signed=True, **kw):
    return dict({"op": "submit", "event": ev, "valid": is_valid(ev, SIGNED if signed else []), "now": now}, **kw)


def corpus():
    """[(name, property, ops)] - each failed on the tree before the fix named in findings.d (kept as regression corpus)"""
    P = 30000
    out = []
    a100 = mk(0, P, 100, [["d", "a"]])
    abc200 = mk(0, P, 200, [["d", "abc"]])
    out.append(("d-substring", "C09", [S(a100), S(abc200)]))
    ab100 = mk(0, P, 100, [["d", "ab"]])
    nod200 = mk(0, P, 200, [["t", "x"]])
    out.append(("d-absent-deletes-all", "C09", [S(a100), S(ab100), S(nod200)]))
    e100 = mk(0, P, 100, [["d", ""]])
    e200 = mk(0, P, 200, [["d", ""]])
    out.append(("d-empty-never-replaces", "C09", [S(e100), S(e200)]))
    bare200 = mk(0, P, 200, [["d"]])
    out.append(("d-bare-is-empty", "C09", [S(e100), S(a100), S(bare200)]))
    nod100 = mk(0, P, 100, [["t", "y"]])
    out.append(("d-absent-is-empty", "C09", [S(nod100), S(a100), S(e200)]))
    two = mk(0, P, 200, [["d", "a"], ["d"]])
    out.append(("d-second-bare", "C09", [S(a100), S(ab100), S(two)]))
    cand_two = mk(0, P, 100, [["d", "zz"], ["d", "a"]])
    out.append(("d-candidate-second-d", "C09", [S(cand_two), S(mk(0, P, 200, [["d", "a"]]))]))
    R = 10000
    out.append(("replace-10-5-7-20", "C09", [S(mk(0, R, t, [["t", "x"]])) for t in (10, 5, 7, 20)]))
    out.append(("replace-ff-id-tie", "C09", [S(mk(0, R, 100, [], want=0xFF)), S(mk(0, R, 100, [], content="n", want=0x00)), S(mk(0, R, 101, []))]))
    out.append(("replace-other-author-kind", "C09", [S(mk(1, R, 50, [])), S(mk(0, R + 1, 50, [])), S(mk(0, 1, 50, [])), S(mk(0, R, 100, []))]))
    # ---- C08
    n1 = mk(0, 1, 100, [["t", "x"]])
    n2 = mk(0, 1, 101, [["t", "y"]])
    f1 = mk(1, 1, 100, [["t", "x"]])
    out.append(("delete-bare-e-first", "C08", [S(n1), S(mk(0, 5, 200, [["e"], ["e", n1["id"]]]))]))
    out.append(("delete-malformed-e", "C08", [S(n1), S(mk(0, 5, 200, [["e", n1["id"]], ["e", "zz"]]))]))
    out.append(("delete-own-foreign-unknown", "C08", [S(n1), S(n2), S(f1), S(mk(0, 5, 200, [["e", n1["id"]], ["e", f1["id"]], ["e", "00" * 32], ["e", n1["id"]]]))]))
    nff = mk(0, 1, 199, [], want=0xFF)
    out.append(("delete-ff-id-at-boundary", "C08", [S(nff), S(mk(0, 5, 200, [["e", nff["id"]]]))]))
    newer = mk(0, 1, 300, [])
    out.append(("delete-newer-and-same-second", "C08", [S(newer), S(mk(0, 1, 200, [], content="s")), S(mk(0, 5, 200, [["e", newer["id"]]]))]))
    # ---- C17
    T = 1001
    for name, val in (("exp-900", "900"), ("exp-1e10", "10000000000"), ("exp-empty", ""), ("exp-999999999", "999999999"),
                      ("exp-T-1", str(T - 1)), ("exp-T", str(T)), ("exp-T+1", str(T + 1)), ("exp-0123", "0123"), ("exp-abc", "abc")):
        out.append((name, "C17", [S(mk(0, 1, 100, [["expiration", val]])), S(mk(1, 1, 100, [["t", "keep"]])), {"op": "gc", "now": T}]))
    out.append(("exp-two-tags", "C17", [S(mk(0, 1, 100, [["expiration", "9999999999"], ["expiration", "5"]])), {"op": "gc", "now": T}]))
    out.append(("ephemeral-boundaries", "C17", [{"op": "wadd", "event": mk(0, k, 100, []), "now": 1000} for k in (19999, 20000, 29999, 30000)] + [{"op": "gc", "now": T}]))
    out.append(("ephemeral-not-stored", "C17", [S(mk(0, 20000, 100, [])), S(mk(0, 29999, 100, [["expiration", "5"]])), {"op": "gc", "now": T}]))
    # ---- C06
    out.append(("dup-acked", "C06", [S(n1), S(n1)]))
    out.append(("created-minus-1", "C06", [S(mk(0, 1, -1, []))]))
    out.append(("created-2^32", "C06", [S(mk(0, 1, 2 ** 32, []))]))
    out.append(("created-2^32-1", "C06", [S(mk(0, 1, 2 ** 32 - 1, []))]))
    out.append(("created-2^64", "C06", [S(mk(0, 1, 2 ** 64, []))]))
    out.append(("kind-2^32", "C06", [S(mk(0, 2 ** 32, 100, []))]))
    out.append(("tag-470", "C06", [S(mk(0, 1, 100, [["t", "v" * 470]]))]))
    out.append(("tag-471", "C06", [S(mk(0, 1, 100, [["t", "v" * 471]]))]))
    out.append(("tag-600-replaceable", "C06", [S(mk(0, R, 100, [])), S(mk(0, R, 200, [["t", "v" * 600]]))]))
    out.append(("delete-malformed-acked", "C06", [S(mk(0, 5, 200, [["e", "nothex"]]))]))
    out.append(("created-0-unsigned-mode", "C06", [S(mk(0, 1, 0, []), signed=False)]))
    # ---- C10
    old = mk(0, R, 100, [["t", "x"]])
    out.append(("reindex-after-replace", "C10", [S(old), S(mk(0, R, 200, [])), {"op": "reindex", "index": "tags", "event": old, "now": 1000}]))
    out.append(("bulk-after-delete", "C10", [S(n1), {"op": "del", "id": n1["id"], "now": 1000}, {"op": "bulk", "index": "kinds", "events": [n1, None], "now": 1000}]))
    out.append(("dup-tags-nul-multibyte", "C10", [S(mk(0, 1, 100, [["t", "a"], ["t", "a"], ["é", "ab\x00c"], ["\U0001F600", ""], ["t", "a\x00"]])),
                                                 S(mk(0, 5, 200, [["e", "x"]])), {"op": "gc", "now": T}]))
    return out


def suite_corpus(prop=None, signed_default=True):
    s = Suite("corr:kv-corpus")
    s.rule = ("targeted witnesses of past failures (d-value relations, arrival orders, deletion reference shapes, expiration values around T, "
              "integer / key-size limits, reindex after removal); model vs implementation on every field, plus all oracles")
    items = [c for c in corpus() if prop is None or c[1] == prop]
    for signed in (True, False):
        hs = [ops for name, p, ops in items if all(o.get("valid", True) == is_valid(o["event"], SIGNED if signed else []) for o in ops if o["op"] == "submit")]
        if hs:
            run_batch(s, hs, SIGNED if signed else [])
    return s
