"""msgpack is not installed in /venv; re-export the official pure-Python fallback that
ships inside pip's vendored tree (pip._vendor.msgpack 1.1.x)."""
from pip._vendor.msgpack import *  # noqa: F401,F403
from pip._vendor.msgpack import packb, unpackb, Packer, Unpacker, version  # noqa: F401
