"""Pure-Python stand-in for the `lmdb` (py-lmdb) module, which is not installable in
this sandbox.  Semantics = coq/Lib/KV.v: an ordered byte-key map, single-writer
copy-on-commit transactions, py-lmdb's documented cursor conventions, a 511-byte key
limit.  Adds what the harness needs: a log of transaction boundaries and mutations,
and fault / kill injection at the k-th mutation."""
import bisect
import threading


class Error(Exception):
    pass


class BadValsizeError(Error):
    pass


class InjectedFault(Error):
    pass


MAX_KEY = 511
_ENVS = {}
LOCK = threading.Lock()

# ---- harness controls (module level; reset with reset_controls()) ----
TRACE = []            # ("begin",) ("put",key,val) ("delete",key) ("commit",) ("abort",)
TRACE_ON = [False]
WRITE_TXNS_DONE = [0]  # number of write transactions finished (committed or aborted)
FAULT_AT = [None]     # raise InjectedFault at the k-th mutation (0-based) counted from arm time
KILL_AT = [None]      # from the k-th mutation on, the transaction silently never commits ("process killed")
_MUT = [0]
_KILLED = [False]


def reset_controls():
    TRACE.clear()
    TRACE_ON[0] = False
    FAULT_AT[0] = None
    KILL_AT[0] = None
    _MUT[0] = 0
    _KILLED[0] = False


def arm(fault_at=None, kill_at=None):
    _MUT[0] = 0
    _KILLED[0] = False
    FAULT_AT[0] = fault_at
    KILL_AT[0] = kill_at


def wipe(path=None):
    if path is None:
        _ENVS.clear()
    else:
        _ENVS.pop(path, None)


class Environment:
    def __init__(self, path=None, **kw):
        self.path = path
        self._st = _ENVS.setdefault(path, {"keys": [], "vals": {}})
        self._wlock = threading.Lock()

    def begin(self, write=False, buffers=False, **kw):
        return Transaction(self, write, buffers)

    def close(self):
        pass

    def stat(self):
        return {"entries": len(self._st["keys"])}

    def max_key_size(self):
        return MAX_KEY

    def __enter__(self):
        return self

    def __exit__(self, *a):
        self.close()

    # harness helper: the committed keyspace
    def dump(self):
        st = self._st
        return [(k, st["vals"][k]) for k in st["keys"]]


def open(path=None, **kw):
    return Environment(path, **kw)


class Transaction:
    def __init__(self, env, write, buffers):
        self.env = env
        self.write = write
        self.buffers = buffers
        if write:
            env._wlock.acquire()
            self.keys = list(env._st["keys"])
            self.vals = dict(env._st["vals"])
            if TRACE_ON[0]:
                TRACE.append(("begin",))
        else:
            self.keys = env._st["keys"]   # snapshot by reference: commits install new objects
            self.vals = env._st["vals"]
        self.done = False
        self._cursors = []   # cursors of a write txn are tracked: mutations keep their logical position

    def __enter__(self):
        return self

    def __exit__(self, et, ev, tb):
        if et is None:
            self.commit()
        else:
            self.abort()

    def commit(self):
        if self.done:
            return
        self.done = True
        if self.write:
            if _KILLED[0]:
                if TRACE_ON[0]:
                    TRACE.append(("killed",))
            else:
                self.env._st["keys"] = self.keys
                self.env._st["vals"] = self.vals
                if TRACE_ON[0]:
                    TRACE.append(("commit",))
            WRITE_TXNS_DONE[0] += 1
            self.env._wlock.release()

    def abort(self):
        if self.done:
            return
        self.done = True
        if self.write:
            if TRACE_ON[0]:
                TRACE.append(("abort",))
            WRITE_TXNS_DONE[0] += 1
            self.env._wlock.release()

    def _chk(self, key):
        key = bytes(key)
        if len(key) == 0 or len(key) > MAX_KEY:
            raise BadValsizeError("mdb_put: MDB_BAD_VALSIZE: Unsupported size of key/DB name/data, or wrong DUPFIXED size")
        return key

    def _mutation(self):
        k = _MUT[0]
        _MUT[0] += 1
        if KILL_AT[0] is not None and k >= KILL_AT[0]:
            _KILLED[0] = True
        if FAULT_AT[0] is not None and k == FAULT_AT[0]:
            raise InjectedFault("injected engine failure at mutation %d" % k)

    def put(self, key, value, **kw):
        key = self._chk(key)
        self._mutation()
        if key not in self.vals:
            i = bisect.bisect_left(self.keys, key)
            self.keys.insert(i, key)
            for c in self._cursors:
                if c.pos is not None and c.pos >= i:
                    c.pos += 1
        self.vals[key] = bytes(value)
        if TRACE_ON[0]:
            TRACE.append(("put", key, bytes(value)))
        return True

    def delete(self, key, value=b"", db=None):
        key = self._chk(key)
        self._mutation()
        if TRACE_ON[0]:
            TRACE.append(("delete", key))
        if key in self.vals:
            del self.vals[key]
            i = bisect.bisect_left(self.keys, key)
            del self.keys[i]
            # like mdb_cursor_del0: a cursor on the deleted key now denotes its successor
            # (prev() goes to the predecessor of the deleted key); cursors above move down
            for c in self._cursors:
                if c.pos is not None:
                    if c.pos > i:
                        c.pos -= 1
                    elif c.pos == i and i == len(self.keys):
                        c.pos = None
            return True
        return False

    def get(self, key, default=None):
        v = self.vals.get(bytes(key))
        if v is None:
            return default
        return memoryview(v) if self.buffers else v

    def cursor(self):
        return Cursor(self)


class Cursor:
    def __init__(self, txn):
        self.txn = txn
        self.pos = None
        if txn.write:
            txn._cursors.append(self)

    def __enter__(self):
        return self

    def __exit__(self, *a):
        self.close()

    def close(self):
        pass

    def _ret(self, k):
        return memoryview(k) if self.txn.buffers else k

    def key(self):
        ks = self.txn.keys
        if self.pos is None or not (0 <= self.pos < len(ks)):
            return self._ret(b"")
        return self._ret(ks[self.pos])

    def set_range(self, key):
        ks = self.txn.keys
        i = bisect.bisect_left(ks, bytes(key))
        if i < len(ks):
            self.pos = i
            return True
        self.pos = None
        return False

    def prev(self):
        ks = self.txn.keys
        if self.pos is None:
            if not ks:
                return False
            self.pos = len(ks) - 1
            return True
        if self.pos - 1 >= 0:
            self.pos -= 1
            return True
        self.pos = None
        return False

    def next(self):
        ks = self.txn.keys
        if self.pos is None:
            if not ks:
                return False
            self.pos = 0
            return True
        if self.pos + 1 < len(ks):
            self.pos += 1
            return True
        self.pos = None
        return False

    def _item(self, k, keys, values):
        if keys and values:
            return (self._ret(k), self.txn.vals[k])
        if keys:
            return self._ret(k)
        return self.txn.vals[k]

    def iternext(self, keys=True, values=True):
        ks = self.txn.keys
        if self.pos is None:
            if not self.next():
                return
        while True:
            yield self._item(ks[self.pos], keys, values)
            if not self.next():
                return

    def iterprev(self, keys=True, values=True):
        ks = self.txn.keys
        if self.pos is None:
            if not self.prev():
                return
        while True:
            yield self._item(ks[self.pos], keys, values)
            if not self.prev():
                return
